#!/bin/bash
# usage: tools_seed_eval.sh <Cxx> <seed-dir-with-patch.diff> [checks-to-run...]
# 1. confirms in a scratch worktree that the patch applies, builds and passes the existing suite
# 2. applies it to /repo, runs the property's quick check (and any others named), restores /repo
set -u
prop="$1"; dir="$2"; shift 2
export GOFLAGS=-mod=mod GOPROXY=off GOSUMDB=off GOTOOLCHAIN=local
cd /repo || exit 2
[ -n "$(git status --porcelain)" ] && { echo "repo dirty"; exit 2; }
git apply --check "$dir/patch.diff" || { echo "PATCH-DOES-NOT-APPLY"; exit 3; }
wt=/tmp/seedeval-$$
git worktree add -q --detach "$wt" HEAD || exit 2
( cd "$wt" && git apply "$dir/patch.diff" && go build ./... && go test -vet=off -count=1 ./... 2>&1 | grep -v "no test files" | tail -8 ) > /tmp/seedeval-$$.log 2>&1
suite_rc=$?
if grep -q "^FAIL\|^---.*FAIL\|cannot\|undefined" /tmp/seedeval-$$.log; then echo "SUITE-OR-BUILD-FAILS:"; cat /tmp/seedeval-$$.log; fi
echo "suite with patch: $(grep -c '^ok' /tmp/seedeval-$$.log) packages ok, $(grep -c '^FAIL' /tmp/seedeval-$$.log) FAIL"
git worktree remove --force "$wt"; rm -f /tmp/seedeval-$$.log
git apply "$dir/patch.diff"
for p in "$prop" "$@"; do
  ( cd /verif && VERIF_EVIDENCE_DIR=/verif/.build/mutant-evidence ./vcheck "$p" quick 2>&1 | grep -E "^(VIOLATION|OK|INCONCLUSIVE|BUILD-FAILED|KNOWN|----)" | head -4 | sed "s/^/[$p] /" )
done
git checkout -- . ; git status --porcelain
