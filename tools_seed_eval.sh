#!/bin/bash
# usage: [SEED_EVAL_TIER=thorough [VERIF_CHECKS=n]] tools_seed_eval.sh <Cxx> <seed-dir-with-patch.diff> [checks-to-run...]
# In a scratch worktree of /repo's HEAD (removed afterwards; /repo itself is not touched, so several
# evaluations can run side by side):
# 1. confirms that the patch applies, builds and passes the existing suite
# 2. runs the property's quick check (and any others named) against that worktree
#    (VERIF_REPO_DIR + a harness copy whose go.mod points there; same code path as on /repo)
set -u
prop="$1"; dir="$(readlink -f "$2")"; shift 2
export GOFLAGS=-mod=mod GOPROXY=off GOSUMDB=off GOTOOLCHAIN=local
root=$(mktemp -d /tmp/seedeval.XXXXXX); wt="$root/wt-$$"; hs="$root/h"
trap 'git -C /repo worktree remove --force "$wt" 2>/dev/null; git -C /repo worktree prune; rm -rf "$root"' EXIT
git -C /repo worktree add -q --detach "$wt" HEAD || exit 2
git -C "$wt" apply --check "$dir/patch.diff" || { echo "PATCH-DOES-NOT-APPLY"; exit 3; }
( cd "$wt" && git apply "$dir/patch.diff" && go build ./... && go test -vet=off -count=1 ./... 2>&1 | grep -v "no test files" | tail -8 ) > "$root/suite.log" 2>&1
if grep -q "^FAIL\|^---.*FAIL\|cannot\|undefined" "$root/suite.log"; then echo "SUITE-OR-BUILD-FAILS:"; cat "$root/suite.log"; fi
echo "suite with patch: $(grep -c '^ok' "$root/suite.log") packages ok, $(grep -c '^FAIL' "$root/suite.log") FAIL"
git -C "$wt" clean -fdq
mkdir -p "$hs"; cp -r /verif/harness/. "$hs"/; sed -i "s|=> /repo|=> $wt|" "$hs/go.mod"
for p in "$prop" "$@"; do
  ( cd /verif && VERIF_REPO_DIR="$wt" VERIF_HARNESS_DIR="$hs" VERIF_EVIDENCE_DIR=/verif/.build/mutant-evidence ./vcheck "$p" "${SEED_EVAL_TIER:-quick}" 2>&1 | grep -E "^(VIOLATION|OK|INCONCLUSIVE|BUILD-FAILED|KNOWN|----)" | head -4 | sed "s/^/[$p] /" )
done
