#!/usr/bin/env python3
# usage: tools_seed_table.py <prefix>   - prints the DESIGN.md table rows for /verif/seeded/<prefix>*
import json, os, sys
pre = sys.argv[1]
print("| seeded change | property | what it does | first run | outcome |")
print("|---|---|---|---|---|")
for d in sorted(os.listdir("/verif/seeded")):
    if not d.startswith(pre):
        continue
    m = json.load(open(f"/verif/seeded/{d}/meta.json"))
    run = m["checks_run"]
    if "thorough: VIOLATION" in run and "quick: OK (missed" in run:
        first = "missed in quick, thorough reports it"
    elif "not run against the harness as it was" in run:
        first = "dimension absent, check extended"
    elif "reports it at once" in run:
        first = "caught by another check"
    elif "first run OK (missed)" in run or "MISSED at first" in run:
        first = "missed, check strengthened"
    elif "INCONCLUSIVE (" in run and "first run" in run:
        first = "inconclusive, check strengthened"
    elif run.startswith(f"vcheck {m['property']} quick: VIOLATION"):
        first = "caught"
    elif "out of scope" in run:
        first = "out of scope"
    else:
        first = "caught by another check"
    cell = lambda s, n: s.replace("|", "\\|").replace("\n", " ")[:n]
    print(f"| `{d}` | {m['property']} | {cell(m['breaks'], 230)} | {first} | {cell(run.replace('vcheck '+m['property']+' quick: ', '', 1), 330)} |")
