#!/bin/bash
# usage: tools_mutate.sh <file-in-repo> <python-regex-old> <new> <Cxx> [tier]
# applies a one-off textual mutation to /repo, runs the check, restores the tree. For sensitivity testing only.
set -u
f="$1"; old="$2"; new="$3"; prop="$4"; tier="${5:-quick}"
cd /repo || exit 2
if [ -n "$(git status --porcelain)" ]; then echo "repo dirty"; exit 2; fi
python3 - "$f" "$old" "$new" <<'PY'
import sys,re
f,old,new=sys.argv[1:4]
s=open(f).read()
n=s.count(old)
if n==0:
    print("MUTATION DID NOT APPLY"); sys.exit(3)
open(f,'w').write(s.replace(old,new,1))
PY
rc=$?
if [ $rc -ne 0 ]; then git checkout -- .; exit $rc; fi
( cd /verif && VERIF_EVIDENCE_DIR=/verif/.build/mutant-evidence VERIF_CHECKS=${VERIF_CHECKS:-} ./vcheck "$prop" "$tier" 2>&1 | grep -E "^(VIOLATION|OK|INCONCLUSIVE|BUILD-FAILED|KNOWN)" | head -3 )
git checkout -- .
