#!/bin/bash
# usage: tools_seed_verify.sh <seeddir> <demo-file-in-seeddir> <dest-path-relative-to-repo-root> <pkg> <run-regex>
# confirms in a scratch worktree of /repo: demo passes without patch, fails with patch; suite passes with patch (demo excluded)
set -u
dir="$1"; demo="$2"; dest="$3"; pkg="$4"; run="$5"
export GOFLAGS=-mod=mod GOPROXY=off GOSUMDB=off GOTOOLCHAIN=local
race=""; [ -n "${SEED_VERIFY_RACE:-}" ] && race="-race"
wt=/tmp/seedverify-$$
git -C /repo worktree add -q --detach "$wt" HEAD || exit 2
cd "$wt"
cp "$dir/$demo" "$dest"
go test $race -vet=off -count=1 -run "$run" "$pkg" > /tmp/sv-$$-a.log 2>&1; a=$?
git apply "$dir/patch.diff" || { echo "PATCH DOES NOT APPLY"; cd /; git -C /repo worktree remove --force "$wt"; exit 3; }
go test $race -vet=off -count=1 -run "$run" "$pkg" > /tmp/sv-$$-b.log 2>&1; b=$?
rm -f "$dest"
go build ./... > /tmp/sv-$$-c.log 2>&1 && go test -vet=off -count=1 ./... >> /tmp/sv-$$-c.log 2>&1; c=$?
echo "demo without patch: exit $a | demo with patch: exit $b ($(grep -c -- '--- FAIL' /tmp/sv-$$-b.log) FAIL lines) | suite with patch: exit $c ($(grep -c '^ok' /tmp/sv-$$-c.log) ok)"
[ $a -ne 0 ] && tail -5 /tmp/sv-$$-a.log
[ $c -ne 0 ] && grep -v "^ok\|no test files" /tmp/sv-$$-c.log | tail -8
cd /; git -C /repo worktree remove --force "$wt"; rm -f /tmp/sv-$$-*.log
