#!/bin/bash
# soak: every quick check at several seeds (evidence goes to a scratch directory); prints only what is not OK
cd "$(dirname "$(readlink -f "$0")")" || exit 2
export VERIF_EVIDENCE_DIR="$PWD/.build/soak-evidence"
for s in "$@"; do
  echo "== seed $s"
  VERIF_SEED=$s ./run_all.sh quick 4 2>&1 | grep -v "exit=0" 
done
echo "soak done"
