# Per-property parameters of the driver.  quick/thorough = rapid cases per property function (total
# over all shards); rule = how cases are generated and what makes one non-trivial (goes to evidence).
COMMON_ASSUME = [
    "Go toolchain, crypto/md5 and pgregory.net/rapid are correct",
    "harness/model is a faithful reading of RFC 8907 (DESIGN.md 5c)",
]

CHECKS = {
    "C01": {
        "quick": 1500, "thorough": 60000,
        "rule": "rapid draws field values for each of the 9 codec types (every enum member, flag octets 0..255, "
                "boundary-biased lengths 0..255 / 0..65535, 0..255 arguments) plus an exhaustive enum/flag/length sweep; "
                "oracle = independent RFC 8907 byte-layout model in both directions. Non-trivial: >=2 variable fields "
                "non-empty, or >=1 argument, or a 2-octet length >=256 (header: flags/minor/seq>=253/length>=256). "
                "Distinct = distinct JSON of (codec, value).",
        "assumptions": COMMON_ASSUME,
    },
}
