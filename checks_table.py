# Per-property parameters of the driver.  quick/thorough = rapid cases per property function (total
# over all shards); rule = how cases are generated and what makes one non-trivial (goes to evidence).
COMMON_ASSUME = [
    "Go toolchain, crypto/md5 and pgregory.net/rapid are correct",
    "harness/model is a faithful reading of RFC 8907 (DESIGN.md 5c)",
]

CHECKS = {
    "C01": {
        "quick": 6000, "thorough": 240000,
        "fuzz": [{"name": "FuzzC01Rapid", "seconds": 60}],
        "rule": "rapid draws field values for each of the 9 codec types (every enum member, flag octets 0..255, "
                "boundary-biased lengths 0..255 / 0..65535, 0..255 arguments) plus an exhaustive enum/flag/length sweep; "
                "oracle = independent RFC 8907 byte-layout model in both directions. The decode direction is done twice: into a fresh value and into a target that already holds another value (every flag and field set); both must give the same result. Non-trivial: >=2 variable fields "
                "non-empty, or >=1 argument, or a 2-octet length >=256 (header: flags/minor/seq>=253/length>=256). "
                "Distinct = distinct JSON of (codec, value).",
        "assumptions": COMMON_ASSUME,
    },
    "C02": {
        "quick": 3000, "thorough": 120000,
        "fuzz": [{"name": "FuzzC02DecodeFirst", "seconds": 60}, {"name": "FuzzC02Rapid", "seconds": 45}],
        "rule": "encode-first: rapid draws a valid value of each of the 9 codec types and (3 of 4 cases) stretches one field/argument "
                "list to a width boundary (254..257, 65534..65537, 70000, 254..300 args) or spoils it (enum out of range, non-ASCII, "
                "priv>15, stop+watchdog); oracles: encode ok => decode(encode(v)) == v; !fits(v) by the harness' own width table => "
                "encode errors; Validate(v) != nil => encode errors. decode-first: model-encoded values plain / with trailing bytes / "
                "mutated / truncated / raw bytes; oracle: decode ok => encode ok and decode(encode(v)) == v, and decoding the same bytes into a reused target (already holding another value) gives the same value. Plus a deterministic "
                "sweep of every boundary length of every field and of the library's whole (major, minor) version value space in a Header. Non-trivial: stretched, spoiled, swept or non-plain decode input.",
        "assumptions": COMMON_ASSUME,
    },
    "C04": {
        "quick": 6000, "thorough": 240000,
        "fuzz": [{"name": "FuzzC04UnmarshalAll", "seconds": 90}],
        "rule": "inputs for tacquito.Unmarshal on all 9 types and Request.Fields: raw bytes (0..70000), truncations and single-octet "
                "corruptions of model-encoded valid values (exhaustive over every cut and every fixed-part octet for a fixed set of "
                "values), each with exact capacity and with 1..70000 bytes of 0xEE-filled spare capacity behind the input; oracles: "
                "no panic, Validate()==nil on success, every variable field is a substring of input[:len] and equals the bytes at "
                "the model's offsets, field bytes total <= len(input), TotalAlloc delta <= 8*len+16KiB (every 8th case). "
                "Non-trivial: truncated/corrupted/valid input or spare capacity. Thorough adds native coverage-guided fuzzing.",
        "assumptions": COMMON_ASSUME + ["runtime.MemStats.TotalAlloc delta on a single goroutine with GC parked measures allocation of the call"],
    },
    "C03": {
        "quick": 8000, "thorough": 320000,
        "rule": "rapid draws (direction in server-read/server-write/client-write/client-read, secret of 0..300 arbitrary octets, "
                "session id edge-biased over uint32, minor 0/1, every sequence number of the direction, flag octet, body length "
                "0..65536 biased to 16k-1/16k/16k+1 and the limit) and a deterministic sweep of lengths 0..80 + block/limit "
                "boundaries and of every sequence number; oracle: raw bytes on the scripted connection equal header || cleartext XOR "
                "model pad (own MD5 chain), received cleartext equals sent cleartext, header/length unaltered, body verbatim with "
                "the unencrypted flag whatever the two secrets. Non-trivial: length >16 and not a multiple of 16, or >=4096, or "
                "clear flag with different secrets.",
        "assumptions": COMMON_ASSUME + ["scripted net.Conn is a faithful connection; client side reached through the verif-tag SetClientConn hook"],
    },
    "C05": {
        "quick": 4000, "thorough": 160000,
        "rule": "rapid draws 1..12 packets (3 types, both minors, flags, sessions, body lengths 0..40 / bufio-size neighbours 94..108 / "
                "4096 / 65535 / 65536), a segmentation of the concatenated stream (one chunk, one byte per read, cuts exactly on "
                "header/body boundaries, inside the length field, random) and a terminal event (EOF at boundary / mid-header / "
                "mid-body, stall then injected deadline expiry, header announcing 65537..2^32-1), delivered by a scripted net.Conn "
                "that returns at most one chunk per Read; server side: a recording handler must receive exactly the written "
                "headers+cleartexts in order, nothing for the partial packet, connection closed, oversize refused without parking "
                "for more input and with <64KiB allocated; client side (verif hook): successive Client.Send calls return the "
                "packets in order (each compared at once and again after all later packets were received) and an error for the remainder. One server-side case in four runs the server with SetUseProxy(true) and puts an HAProxy line (NUL-terminated) before every packet. Plus: 3 packets x every single cut position x both sides. "
                "Non-trivial: >=2 packets with a cut strictly inside a packet, or a terminal event other than EOF at a boundary.",
        "assumptions": COMMON_ASSUME + ["scripted net.Conn is a faithful connection (short reads, EOF, timeout errors as a TCP socket produces)"],
    },
    "C06": {
        "quick": 8000, "thorough": 320000,
        "rule": "rapid draws a request header (3 types, minor 0/1, any flag octet, any session id, odd first sequence number so that "
                "the last request lands on 1,3,251,253,255 or uniform), a depth 1..6 of exchanges through a self-registering "
                "continuation handler, and per step a reply body (AuthenReply incl. RESTART on the last step, AuthorReply, AcctReply, "
                "arbitrary EncoderDecoder of 0..65536 bytes); one step in two-and-a-half first attempts a reply that cannot be encoded (encoder error, 300-byte argument, invalid status); oracle on the raw reply bytes: version/type/flag octets identical to "
                "the request's, same session, seq+1 (1 for RESTART), length == body bytes, body == cleartext XOR model pad iff the "
                "request's unencrypted bit is clear, zero packets and never seq 0 for request 255. Plus every flag octet x type and "
                "every odd sequence number deterministically. Non-trivial: flags != 0, minor 1, depth >= 2, last seq >= 253, RESTART.",
        "assumptions": COMMON_ASSUME + ["one reply per handler invocation (double replies are C07's concern)", "RESTART in answer to request 255 is not generated (statement ambiguous there)"],
    },
    "C08": {
        "quick": 30000, "thorough": 1200000,
        "rule": "rapid draws a history of 1..24 packets on one connection over a pool of 3 session ids; each sequence number is chosen "
                "relative to a reference model of the session table (next valid, replay of last received/sent, last-1, last-2, even, "
                "1, 253..255, uniform, forward jump), each with a handler behaviour (reply or not, register a continuation or not); "
                "oracle: reference model (dispatch iff odd and > every number received or sent in the session; to the session's own "
                "continuation if one is registered else the initial handler; finished sessions forgotten; otherwise no handler and "
                "connection closed) compared after every step with the handler tag actually invoked and open/closed. Plus all "
                "(first, second) pairs deterministically. Non-trivial: history contains a replay, even number, decrease, jump>=4 or 255.",
        "assumptions": COMMON_ASSUME + ["handlers never pair a RESTART reply with a continuation (no defined meaning in RFC 8907)"],
    },
    "C19": {
        "quick": 30000, "thorough": 1200000,
        "fuzz": [{"name": "FuzzC19Seen", "seconds": 75}],
        "rule": "rapid draws server and client secrets (equal or distinct), packet type, minor, odd seq, flags (0/4/1/5), session and a "
                "body: a model-encoded well-formed request under the right key, the same under a wrong key, bytes constructed so that "
                "the server sees over-declared lengths under every layout of the type, arbitrary bytes, or a well-formed request with "
                "noise/truncation; the bytes the server will see are classified by the model's own length-consistency rule: "
                "MISMATCH => 0 handler calls, exactly 1 packet of the same type decoding under the server's secret to the type's reply "
                "layout with ERROR status, connection closed; WELLFORMED or unencrypted flag => handler called once, nothing written, "
                "connection open; GREY => at most one packet. Plus the repository's canonical requests under 200 wrong keys each. "
                "Non-trivial: MISMATCH with >=9 bytes, WELLFORMED, or clear flag with differing secrets.",
        "assumptions": COMMON_ASSUME + ["bodies whose argument length octets are not all present are GREY (DESIGN.md C19)"],
    },
    "C17": {
        "quick": 20000, "thorough": 800000,
        "rule": "rapid draws a schedule: 0..5 scripted connections, per connection a script of complete packets (spread over 1..3 reads "
                "or one byte per read, handler optionally held), a partial packet (1..19 bytes, one byte per read, then the read "
                "deadline is made to expire) or EOF; a cancellation point (before the first accept, inside Accept just before it "
                "hands out a chosen connection, while all reads are parked, while a held handler runs, at the end); GOMAXPROCS 1/2/"
                "default; one case in four uses the reference Loader (given the same context as Serve, as main.go does) and the reference handlers instead of a static provider. The scripted listener/connections/handler own the schedule and stamp every Accept, SetDeadline, Read, "
                "Write, Close, handler begin/end and Serve's return. Oracles on the stamps: listener closed before Serve returns; "
                "every accepted connection closed and every handler finished before Serve returns, no activity after; every Read "
                "preceded by a finite deadline armed since the last packet; deadline not re-armed >=3 times within one packet; a "
                "stalled partial packet is closed on expiry and reaches no handler; Serve returns once Accept and all reads timed "
                "out; if it has not after 10 s, the goroutine dump decides: no server goroutine parked in the harness' Read/Accept and an unchanged picture one second later is a hang (violation), anything else is inconclusive. Non-trivial: cancel while >=1 connection is open "
                "(in-accept/parked/in-handler) or a mid-packet stall.",
        "assumptions": COMMON_ASSUME + ["deadline expiry is injected by the scripted connection (only honoured if a non-zero deadline is armed); 15 s / 10 s constants are not waited for",
                                         "unbounded liveness is out of reach; bounded liveness under the owned schedule is checked"],
    },
    "C20": {
        "quick": 3000, "thorough": 120000,
        "rule": "rapid draws a history of 1..6 connections (some refused at admission by the secret provider) with up to 6 operations each, "
                "interleaved round-robin: complete a session, start a session whose handler registers a continuation, continue and "
                "finish it, first packet with an even number, even number on a session that waits for a continuation, replay of a used number, key-mismatch body, EOF mid-packet, EOF; "
                "whatever is still open is shut down by cancellation with read deadlines expiring. Oracle: the four in-flight gauges "
                "(serve_accepted, handle_handlers, sessions_active, waitgroup_handle_routines_active) read from the default prometheus "
                "registry are never below their pre-case value at any quiescent point and equal it after Serve has returned. "
                "Non-trivial: >=1 abandoned or rejected session/connection.",
        "assumptions": COMMON_ASSUME + ["cases run sequentially in one process, so the pre-case reading is the resting value"],
    },
    "C13": {
        "quick": 1500, "thorough": 60000,
        "rule": "rapid draws a configuration (1..5 ordered scopes with distinct keys and 1..3 prefixes each from an overlapping pool: "
                "nested v4/v6, 0.0.0.0/0, ::/0, non-canonical 10.1.2.3/8, IPv4-mapped v6 prefixes; deny/allow lists of 0..3 "
                "prefixes; 1..5 user entries over 3 names assigned to subsets of scopes, listed in configuration order or reversed, with per-entry bcrypt credentials; the prefix pool contains prefixes with equal network address and different lengths) rendered "
                "to YAML or JSON and loaded by the reference stack, and 1..6 probe addresses (first/last address of a configured "
                "prefix and the addresses just outside, fixed addresses, IPv4 as 4 bytes and as mapped 16 bytes). Oracle: the "
                "harness' own admission model (own prefix bit arithmetic; deny, allow, first serving scope in order) decides "
                "refused/scope; checked against Loader.Get (error / secret == scope key) and a scripted connection from that "
                "address (refused: closed, 0 bytes, 0 handler calls; admitted: 12 PAP logins, PASS iff the credential is that "
                "scope's for that user). Mapped-address cases where the Go reading and the inclusive reading disagree are GREY. "
                "Non-trivial: probe matched by >=2 scopes, by deny and allow, or a prefix boundary address.",
        "assumptions": COMMON_ASSUME + ["scopes without users are skipped (documented build rule)", "net.ParseIP parses address text; containment arithmetic is the harness' own"],
    },
    "C10": {
        "quick": 2500, "thorough": 100000,
        "rule": "rapid draws a two-scope configuration (1..5 user entries over 5 names incl. 255- and 129-byte names, assigned to scope A, B, "
                "both or none, each with an authenticator variant: none / bcrypt hash / non-hex hash / valid hex that is no bcrypt hash / keychain by key+group with or "
                "without keychain entry or answering with a non-bcrypt value / no options / unregistered type / inherited from the first group that has one; users of both scopes list them in either order; YAML or JSON), "
                "the scope the connection comes from, and 1..3 interleaved authentication sessions: ASCII login with the user in "
                "START or in CONTINUE, PAP, wrong/empty/other-user's/other-scope's password, abort at any step, every "
                "action/type/service/minor START carrying a password, CONTINUE to a fresh session, START mid-exchange, wrong-minor "
                "CONTINUE, extra packets, non-authentication bodies; START fields small / boundary lengths / 127-byte max-ASCII. "
                "Half of the cases add a later login (mostly one destined to PASS) that reuses the session id of an earlier script once that session is over, at any point of the interleaving. Oracle: independent evaluator over the model's decoding of the transcript: a clean correct login must receive exactly "
                "GETUSER?/GETPASS/PASS (or PASS for PAP); any PASS must be justified (LOGIN by PAP@minor1 in START, or ASCII@minor0 "
                "with a non-abort CONTINUE, carrying a non-empty password that bcrypt-verifies for a user named in the session that "
                "exists in the connection's scope with a usable authenticator). Non-trivial: history reaches a password prompt, "
                "uses a user present in both scopes, or contains an out-of-place/odd packet.",
        "assumptions": COMMON_ASSUME + ["bcrypt.CompareHashAndPassword decides what 'verifies' means", "keychain lookups are by user name (as the bcrypt authenticator does)"],
    },
    "C11": {
        "quick": 12000, "thorough": 480000,
        "rule": "rapid draws a two-scope configuration whose users live in one scope or in both (listed in either order), a connection from either scope, and a policy for 1..2 users (0..6 user rules + 0..2 groups x 0..4 rules; rule name from a 4-word pool, '*' or a "
                "padded name; action permit/deny/other; 0..3 patterns from a grammar: words, .*, alternations, partial anchors, "
                "groups, escaped metacharacters, classes, surrounding whitespace, empty, invalid; 0..3 services per user/group with "
                "0..3 set-values (optional or not), match conditions on protocol/scope/multi-value) rendered to YAML or JSON, and 1..6 "
                "requests: command requests (service=shell present/absent/other/starred, cmd=/cmd*/missing/padded, 0..4 cmd-args "
                "incl. ';', '|', spaces, empty, trailing <cr>/<CR>, reordered, second cmd, trailing extra argument, padded with "
                "whitespace/newline) and session requests (0..4 arguments selecting services by attribute or value, '=' and '*'), "
                "arguments carrying both separators (cmd-arg*detail=all, cisco-av-pair*shell:priv-lvl=15), for known and unknown users. Oracle: independent evaluator (rules in order user then groups, rule applies if '*' or "
                "name==cmd and (no patterns or \\A(?:p)\\z matches the joined args with the final <cr> dropped), first applying rule "
                "decides, default FAIL; invalid pattern reached => FAIL also accepted; sessions: exact de-duplicated value list in "
                "configuration order, ADD/REPL by optionality, FAIL when empty; ambiguous requests accept any single reading or "
                "FAIL). Non-trivial: >=2 actions for one command, a pattern with | ^ $ or escape, or a service with a match condition.",
        "assumptions": COMMON_ASSUME + ["Go regexp decides whether a pattern is valid and what it matches", "service-level is_optional is not generated (the statement speaks of value optionality)"],
    },
    "C12": {
        "quick": 10000, "thorough": 400000,
        "rule": "rapid draws 1..6 accounting requests on one connection against a fixed configuration (users with the file accounter, via a "
                "group, with an unregistered accounter type, with none, in another scope, unknown): any flag octet (biased to "
                "start/stop/watchdog/update and stop+watchdog), every method/type/service enum, priv 0..15, header seq 1/3/5, text "
                "fields and 0..255 arguments built from %, %d, %!, %s%s%s, quotes, backslashes, <, &, NUL and other control bytes, "
                "1 in 10 with a truncated body; 0..4 further users get generated accounter blocks (own or via two groups; names empty/shared, types file/syslog/stderr/unknown); plus every flag octet x seq 1/3/5 and every single ASCII byte deterministically. "
                "Oracle: SUCCESS => exactly one sink line between request and reply, stamped before the reply's Write in the shared "
                "event log, whose text (rendered as log.Logger would) JSON-decodes to exactly the request's flags, method, priv, type, "
                "service, user, port, rem_addr and argument list; undecodable / stop+watchdog / unknown user / no accounter => ERROR. "
                "Non-trivial: a field with %, quote, backslash or a control character, or >=16 arguments.",
        "assumptions": COMMON_ASSUME + ["a sink line for a request answered ERROR is allowed", "record field names are matched case-insensitively with common aliases"],
    },
    "C18": {
        "quick": 2500, "thorough": 100000,
        "rule": "the authentication histories of C10 (two-scope configurations with every authenticator variant; 1..3 interleaved "
                "sessions: ASCII/PAP logins, wrong passwords, aborts, every action/type/service/minor START, misplaced packets) with "
                "the connection's shared secret replaced by a unique 19-character token and every presented password (PAP START data "
                "of any action/minor/service; ASCII CONTINUE answering GETPASS) either a pool password of >=8 characters or a unique "
                "token (one unique token in four carries non-ASCII bytes); a recording logger captures every Infof/Errorf/Debugf (rendered), Record (map + obscure list) and Set (fields "
                "selected by key; Set really retains them in the context so later records show them). Oracle: no token occurs in a "
                "rendered message, in a record key or value outside the keys that call obscures, or among the fields selected for "
                "retention. Non-trivial: a password was presented and the history took a failure, error, abort or "
                "unrecognised-START path.",
        "assumptions": COMMON_ASSUME + ["passwords typed at the user-name prompt are not 'passwords presented' in the sense of the statement"],
    },
    "C16": {
        "quick": 2000, "thorough": 80000,
        "rule": "rapid draws a sequence of 2..6 documents for one loader instance (YAML or JSON; fed through Unmarshal, or - two cases in three - written to the same file and loaded with Load(path) as the file watcher does): a generated two-scope configuration and "
                "successors derived by dropping prefix_deny/prefix_allow, shrinking or reordering the user and secret lists, "
                "stripping a user's commands/services/groups/authenticator/accounter or nested match/set_values, shrinking scopes, "
                "replacing option maps, adding filters, changing values; interleaved with documents that fail to parse, have no "
                "users or no secrets. Oracles: (1) a document is accepted iff a fresh loader accepts it; (2) the value received from "
                "Config() equals (nil == empty) what a fresh loader publishes for the same document; (3) JSON snapshots of every "
                "earlier published value are unchanged after every later load; (4) a refused document publishes nothing; (5) live "
                "variant (every k-th case so that at most ~400 Loaders are created per process): the documents are fed to the unmarshaller of a running Loader (apply "
                "barrier: same document pushed twice more) and Loader.Get for 7 probe addresses equals that of a stack freshly "
                "started with the last accepted document; (6) TestC16EnumWatcher: the real fsnotify watcher around a YAML loader, the file rewritten with a smaller, an invalid and a third document (waits for the watcher's 1 s tick, bounded by the watchdog). Non-trivial: a later valid document omits or shrinks something.",
        "assumptions": COMMON_ASSUME + ["gopkg.in/yaml.v3 and encoding/json render the harness' own config structs faithfully"],
    },
    "C07": {
        "quick": 3000, "thorough": 120000,
        "rule": "rapid draws a two-scope configuration (every authenticator/accounter variant of C10; 1 in 3 with a service whose "
                "configured values cannot be encoded: non-ASCII, 300 bytes, 1 byte, 260 values) and a history of 1..12 requests "
                "multiplexed over 4 session ids on one connection: authentication scripts (all C10 flavours, continued across steps), "
                "ASCII login with a 256..65520-byte user name, command and session authorization, accounting with good and bad "
                "flags, known and unknown users, a well-formed body of another packet type under each header type, truncated/"
                "corrupted/padded bodies, even/replayed/jumping/restarting sequence numbers, sequence 255, invalid version/type "
                "octets, oversize length, wrong-key bodies; user names also UTF-8 / high-byte, port/rem_addr/arguments with control and high bytes; flags 0/4/1. A wrapping SecretProvider records handler invocations, "
                "Reply/Write/Next calls. Oracle after every request (server quiescent or connection closed): acceptable request "
                "(valid header, odd sequence number greater than the session's last, body not a key-mismatch by the model's rule) => "
                "exactly one handler invocation and exactly one packet (none iff sequence 255), connection open; rejected request => "
                "no handler invocation, at most one packet, connection closed; GREY bodies may go either way consistently. Plus the "
                "exported stringy authorizer driven directly with a foreign user. Non-trivial: history has a step other than the "
                "plain happy paths.",
        "assumptions": COMMON_ASSUME + ["a handler that panics is C14's finding, not counted here"],
    },
    "C09": {
        "quick": 1500, "thorough": 60000,
        "rule": "rapid draws a two-scope configuration and 2..5 session scripts (authentication scripts of every C10 flavour: ASCII at "
                "each stage, user in START or CONTINUE, PAP, wrong passwords, aborts, misplaced packets; command/session "
                "authorizations; accounting) with session ids from a pool whose members collide modulo 256 and differ only in high "
                "bits, then either a merge order of their packets on one single-connect connection, or an assignment to 2..4 "
                "connections driven concurrently by separate goroutines (same session id reused on different connections). "
                "Oracle (metamorphic): each session's transcript (packet count, raw reply header, cleartext reply body, closed flag "
                "per request) equals the transcript of the same script run alone on a fresh connection of a freshly started server "
                "with the same configuration. Non-trivial: >=2 sessions simultaneously open on the connection, or >=2 concurrent "
                "connections.",
        "assumptions": COMMON_ASSUME + ["scripts that make the server close the whole connection (key-mismatch bodies, sequence violations) are not part of this domain: that effect on neighbours is the protocol's"],
    },
    "C14": {
        "quick": 1500, "thorough": 60000,
        "fuzz": [{"name": "FuzzC14ServerStream", "seconds": 120}],
        "rule": "rapid draws a configuration (C10's generator plus odd-but-loadable users: bcrypt authenticator without hash, without "
                "options, with non-hex or truncated hash, accounters with empty option keys, users with nothing, empty rule/service/"
                "value/group entries; YAML or JSON) and 1..4 hostile connections of 1..8 chunks each: packets of authentication "
                "scripts in every handler state (with follow-ups), authorizations incl. degenerate arguments, accounting with any "
                "flag octet, well-formed bodies of other packet types, each optionally with 1..3 mutated cleartext octets, cut "
                "short, or with mutated header octets; requests against a user with a generated C11-style policy (invalid patterns included), often sent twice; random garbage; headers announcing 0..2^32-1 bytes with short tails; one case in four in HAProxy mode with well-formed and hostile proxy lines; some configurations carry a secret configuration whose prefix list parses to nothing; one connection in six comes from an address no configuration covers; before one connection in six the listener's Accept fails once with a temporary non-timeout error; ending "
                "in EOF or silence. Oracle: no handler panics (a wrapping handler records and recovers them; a panic outside a "
                "handler kills the test process, which the driver reports with the journalled case), and before/after every hostile "
                "connection a fresh control connection completes a known-good PAP login with PASS. Thorough adds native "
                "coverage-guided fuzzing of the whole reference server through the scripted transport (state reset per input). "
                "Non-trivial: packets of the hostile connections reached handlers (more invocations than control logins).",
        "assumptions": COMMON_ASSUME + ["components not registered by cmds/server/main.go (SPAN, DNS provider, syslog accounter, HAProxy header) are outside the check"],
    },
    "C15": {
        "quick": 400, "thorough": 8000, "race": True, "shards_thorough": 12, "timeout_quick": 1500,
        "rule": "rapid draws a concurrent workload run with real goroutines against the whole reference server built with -race: 2..8 "
                "clients (each its own net.Pipe connection; scripts of PAP and ASCII logins, PAP logins of a keychain-path user (no hash option) by at least two clients, command authorizations of the same "
                "user, session authorizations, accounting; optional multiplexing of two sessions; 0..2 extra connections opened and "
                "dropped), 1..4 reloads between two configurations A and B pushed while the clients run (YAML or JSON), 20..200 "
                "lookups of one address concurrent with the reloads, cancellation after or during the workload. The harness shares "
                "nothing between client goroutines; logger and accounting sink are lock-free no-ops; the transport synchronises only "
                "the two ends of one connection. Oracles: (1) Go race detector: the driver parses every report, takes the first "
                "frame of each access that lies in /repo or the harness, and counts the report iff an access is in tacquito code "
                "(signature = the pair of accessing functions; a pair entirely inside the harness is a harness bug, exit 2); "
                "(2) old-or-new: A binds 10.1.0.5 to key-A, B denies it but has key-B for the prefix, so any other answer mixes two "
                "configurations; (3) every value published by the real YAML/JSON loader still serialises to the same JSON after each "
                "later load. Non-trivial (holds by construction, measured): >=2 clients authorising commands of one user, >=2 "
                "connections, and >=1 lookup observed before the reloads finished.",
        "assumptions": COMMON_ASSUME + ["happens-before race detection needs both accesses to execute; it is insensitive to their timing but not to their absence",
                                         "not every interleaving is explored"],
        "technique": "property-based generation of concurrent workloads (rapid) with the Go race detector, an old-or-new lookup oracle and snapshot equality as oracles",
        "min_nontrivial_quick": 2,
    },
}

# later extensions of generators and oracles (kept apart so that each addition reads as one sentence)
RULE_ADDENDA = {
    "C08": "TestC08EnumScale: 6000 sessions (70000 in thorough) left waiting for their continuation on one connection, then follow-ups for a sample of them (around every power of two), reuse of finished ids, and the replay of a used number in a session that still waits. Scripted handlers reply, three times in four, with the library's reply type for the packet type and a real status: GETDATA, GETUSER or GETPASS when they register a continuation, a final status when they do not. One scripted handler call in six sends two or three replies to the one request; each takes the next sequence number and counts as sent. TestC08EnumSlowSession: two sessions wait for their continuation while 16.5 s of real time pass (65 s in thorough) and other sessions come and go; then one is continued and finished, and a used number is replayed in the other.",
    "C20": "Continuations may arrive in the clear on a session that was opened obfuscated. A wait that runs into the watchdog inspects the goroutine dump: a server goroutine stuck on a lock inside tacquito while the harness is idle is the verdict server-goroutine-deadlocked (also in C07, C08 and every check using the scripted connection driver). TestC20EnumBurst: bursts of 8-24 connections (half refused at admission) that all end at the same moment on a lock-free transport, one server per burst, gauges compared after Serve has returned; 3000 bursts in quick, 40000 in thorough (schedule-dependent: makes a non-atomic increment/decrement pair likely to show, cannot force it). Sessions may begin at sequence number 255 (the reply would be 256), with or without a continuation. Connection histories also end in injected transport faults: a read that fails with a connection reset (at a packet boundary or inside a packet) and a connection whose every Write fails (the peer is gone when the reply is written), with or without a session left open. TestC20EnumScale: 6000 sessions (70000 in thorough) left waiting on one connection, a few of them finished, then EOF, a connection reset or the shutdown. Replies of the scripted handler are real authentication replies (a prompt status when the session goes on, PASS or FAIL when it ends). One case in three has a second server in the process that holds one or three connections, each with a waiting session, open from before the resting values are read until after the last comparison.",
    "C06": "One later request in three of a multi-packet exchange changes the flag octet and/or the minor version: the reply mirrors the request it answers.",
    "C11": "Match conditions include an empty-string value (the attribute must be present and empty) and no values at all (the attribute must be present). One case in four has a second user entry of the same name for the other scope with rules of its own; questions are repeated from a second connection coming from that scope; one case in four loads a second policy into the running server in mid-case and judges later requests, sent on new connections, by it. Patterns include counted repetition ({n}, {n,m}, invalid counts), inline flags, perl classes, lazy quantifiers, classes and groups, with argument values that match and just miss them. One command request in twelve is a long command line: 20 to 60 arguments of 100 to 240 octets in front of the drawn ones; patterns include ones that look at the end of the line or for a word anywhere in it. TestC11EnumConcurrent: eight connections of one user ask permitted and denied commands at the same moment, 600 times each, every answer judged by the policy. TestC11EnumPatterns: every kind of pattern (53) alone in a permit rule and in a deny rule, against 31 argument values, deterministic. One case in five has an entry whose name differs from alice's by a blank or a tab, with rules of its own; requests name either. TestC11EnumSharedGroupValues: the configuration reaches the Loader as a value assembled in Go in which users without rules of their own share ONE first-group value (slices with spare capacity) and inherit from different later groups; every user is asked every command twice.",
    "C13": "A third of the IPv6 probe addresses carry a zone (fe80::1%eth0), which is irrelevant to prefixes. One case in four injects a shared-secret keychain whose lookup fails for some keys: an address hit by it may be refused or fall to the next matching configuration, but what it is bound to must be one configuration's own secret, handler and users. One case in three loads a second generated configuration into the running server and probes the same addresses again, judged by the second configuration. One configuration in four gives its first scopes keychain entries that are different (and have different keys) but read alike when group and key are written one after the other with a separator: (net, core/k1/x), (net/core, k1/x), (net/core/k1, x). One configuration in five has 13, 14, 17, 24 or 40 secret configurations. One configuration in six has a secret configuration whose key is the empty string.",
    "C07": "TestC07EnumBadValues: every kind of configured value that cannot go into an authorization REPLY, asked for alone, twice, pipelined and late. The scripted connection models a write deadline: one step in eight the harness' clock moves on before the reply is written, and a write on a connection with an armed write deadline then fails (on the unchanged tree none is armed). Generated command entries include ones without an action key and with an action that is neither permit nor deny. One step in six is pipelined: a second request (acceptable, bad header, or even sequence number) on a session id of its own arrives in the same read. Sequence faults (even, replayed, jumping, restarted numbers) are aimed at sessions that are in the middle of an exchange one time in eight. TestC07EnumCosts: PAP and ASCII logins of users whose bcrypt hash was made with work factor 10, 12, 15 (14, 16, 17 too in thorough), taken from the option and from the keychain, also pipelined. Keys that the tree under test has beyond the configuration schema the harness models - struct fields found by reflection over config.ServerConfig, option names found as string literals in the sources of cmds/server - are written into two generated documents in three with values of the field's type (on the unchanged tree: the four comment fields). Half of the command authorizations name a user that has command rules. One case in eight gives the scope the empty string as its shared secret. User names of generated worlds include ones that read as another type (true, null, 0, ~, 1e3, no).",
    "C10": "One case in three goes on after the history: a second generated configuration (and keychain) is loaded into the running server and a second history runs on a new connection from the same address, judged by the second configuration. Odd START packets (any action/type/service/minor combination) are mostly logins, optionally without data, and three times in four are followed by what a prompted client would send: the user name if it was missing, then the right password. Authenticator variants include a hash option that is a well-formed hash with something behind it. One aborting CONTINUE in three is built so that its octets are also a well-formed START of an ASCII login that carries the right password. TestC10EnumCancelDuringLogin: a user whose hash has work factor 12; the server's context is cancelled 20, 60 and 150 ms after a PAP or ASCII password (right or wrong) went in: a wrong password is never answered PASS. TestC10EnumConcurrentLogins: eight simultaneous PAP or ASCII logins of one user from eight connections (work factor 12, so the checks overlap), right and wrong passwords mixed: PASS exactly for the right ones. TestC10EnumLargeDocument: 12000 users (documents of several megabytes) in YAML and JSON, loaded from a file and through Unmarshal; users at the beginning, in the middle and at the end log in with the right password and with their group's. TestC10EnumCredentialChanges: one user name with different credentials in two scopes (hash option and keychain), then a reload that changes them; after each passed login the same password is presented where and when it is not valid; expectations are the model's. A connection from a scope that has users and is nevertheless refused counts as a correct login that did not pass.",
    "C15": "The fixed policy's match lists contain empty and blank patterns. A third configuration C (secret configurations renamed so that nothing can be built, no filters) takes part in the reloads, and every lookup round also probes 10.1.9.7, which A and B deny and C cannot serve: any answer but a refusal mixes two configurations. A user with spare-capacity slices, own commands, five services and a group is authorized (command and session) during the reloads, and in half of the cases every document is pushed twice in a row. One case in three reloads by writing the document to a file and calling Load(path), as the file watcher does. Every published configuration is handed to a Loader of the reference stack (which builds providers and authorizers from it) before it is compared with the snapshot taken when it was published.",
    "C19": "One case in three (sequence number 3 or more) continues a session that was opened just before on the same connection and is waiting for its continuation. One case in eight is a body whose announced lengths exceed what is present by exactly 256 (one-octet lengths) or 65536 (two-octet lengths), under each layout of the type. Thorough adds native coverage-guided fuzzing (FuzzC19Seen): the bytes the server sees after removing its pad are the fuzz input, seeded with well-formed requests one or two bytes short or long; same classifier oracle. Sequence numbers run over all odd values 1..255. One case in two (of those that are key mismatches) has 1 to 200 octets of the client's next packet arrive in the same read, behind the mismatching packet.",
    "C01": "Every value is also built the way callers build it - New<Type>(Set<Field>(...)...) for the header and the seven bodies - and must encode (bytes and error) exactly like the struct literal. Thorough adds FuzzC01Rapid: the same property with the generators' choices taken from a coverage-guided fuzzer's byte string (rapid.MakeFuzz). One field in six and one argument in eight is text that means something to a parser instead of generated octets: address literals in legal but non-canonical spellings (2001:DB8::1, 2001:db8:0:0:0:0:0:1, 010.001.002.003, zoned, mapped), padded and signed numbers, mixed-case names, padded, quoted and escape-like text (shared with C02, C03, C04). One authorization or accounting request in 25 has everything at its maximum at once: 254 or 255 arguments of 255 octets and text fields of 0, 1, 170, 171 or 255 octets (shared with C02 and C04). Encodings of 512 octets and more that the library returned are kept (the last eight) and compared with the model again after every later encode. TestC01EnumConcurrent: the round trip of every codec from 64 goroutines at once, each with values of its own (the largest of 40 generated per codec, and argument lists of 200 to 255 entries), 40 rounds.",
    "C02": "Besides the argument rules the harness states one more rule of a type itself: an authentication START of type ASCII carries a US-ASCII data field (so a change that silences the value's Validate and the encoder alike is still reported). One long argument list in six has 255 octets in every argument (bodies beyond 65536 octets, which the decoders accept). The argument rules of the authorization and accounting bodies (2..255 / 0..255 octets of US-ASCII) are stated in the harness, not read off the library's Validate, and before a value is judged its arguments pass through the decoders of the other argument-carrying bodies. Over-long argument lists also come in a sparse form: 256+ arguments, each as short as the type allows. Thorough adds native fuzzing: FuzzC02DecodeFirst (any bytes, any codec, decode-first oracle) and FuzzC02Rapid (encode-first property driven by the fuzzer through rapid.MakeFuzz). TestC02EnumConcurrent: the round trip of every codec from 64 goroutines at once, each with values of its own (the largest of 40 generated per codec, and argument lists of 200 to 255 entries), 40 rounds.",
    "C09": "One script in six starts so high that one of its packets is numbered 255 (no reply to that one, nothing else changes); in multiplexed mode the packets of two sessions may reach the server in one read. The generated worlds include configured service values that cannot go on the wire (300 octets, not US-ASCII), so that a handler's first reply fails and its fallback reply is used. Half of the authorization sessions name one of the user's own configured services (own or through a group) as a session authorization, and are focused on the user with the most services, so that several sessions of one user ask for different services in either order. TestC09EnumScale: 6000 generated sessions (12000 in thorough) multiplexed on one connection with every first packet sent before any second one, each compared with its transcript alone. Keys that the tree under test has beyond the configuration schema the harness models - struct fields found by reflection over config.ServerConfig, option names found as string literals in the sources of cmds/server - are written into two generated documents in three with values of the field's type (on the unchanged tree: the four comment fields). One multiplexed case in four has a further session that takes the id of a one-packet session (authorization, accounting, PAP) that is over, on the same connection, while the others go on. TestC09EnumSlowLogin: an ASCII login whose prompts are answered over 16.5 s of real time (65 s in thorough) next to one-packet sessions on the same connection; the session alone is not paused. The thorough scale test multiplexes 70000 sessions (sessions that differ in nothing but their id are run alone once; a transcript that the short cut does not predict is run alone for real before it is judged).",
    "C14": "Hostile connections may have every Write fail from the start, or end in a read error instead of EOF. Policy requests also carry arguments that are no attribute-value pairs (no separator, only separators); every log call additionally goes through the reference logger of cmds/server/log. Keys that the tree under test has beyond the configuration schema the harness models - struct fields found by reflection over config.ServerConfig, option names found as string literals in the sources of cmds/server - are written into two generated documents in three with values of the field's type (on the unchanged tree: the four comment fields). Half of the accounting requests carry the standard attributes of RFC 8907 section 8 with values at the edges (0, negative, the limits of every integer width, text), half of those a stop record's task id, elapsed time and traffic counters. TestC14EnumStalledReaders: GOMAXPROCS+3 clients log in and never read their replies (writes to them block); a well-behaved client that logs in afterwards must be answered; if not, the verdict is taken from the goroutine dump (connection goroutines parked inside the server for a second, not on the harness). TestC14EnumAttributeEdges: accounting and authorization requests with every numeric standard attribute at every edge value, deterministic. Hostile streams include whole bodies of 65536 octets (the largest packet), obfuscated or not.",
    "C03": "Three cases in five are preceded by a warm-up exchange on the same connection with the other minor version, on the same or another session id. Client-write cases also go through Client.SendOnly and use Packet literals whose Header.Length is stale (0, 5, n+20, 65536): what is written must follow the body. One server-side case in four has the secret provider hand out keys that are slices of one buffer: the key of another connection, on which a complete exchange takes place first, lies directly in front of the key of the connection that is judged. TestC03EnumOverlap: two connections of one server; A's packet arrives as header, later body, and between the two a complete exchange takes place on B (sizes 96 to 65536 octets); both handlers must receive their cleartext.",
    "C04": "A value decoded without error is also judged by the rules the harness states itself (arguments of 2..255 US-ASCII octets, US-ASCII data in an ASCII START), not only by the value's own Validate. Request.Fields is also called the way the reference handlers call it, with context keys whose values are present in the request's context. Every input is also decoded into reused receivers (a fully populated value, and the decode of the valid packet the input was derived from): refusal must not depend on the receiver and every decoded field must come from this input.",
    "C05": "One server-side case in three has a session waiting for its continuation (the handler registers one for the first packet) while the rest of the stream and the terminal event arrive. The packet that is cut short varies (clear flag, all three types, announced lengths 1/5/6/20) and one stream in four ends exactly behind a header that announces a body. One stream in four ends in a transport error (connection reset) instead of EOF, at a boundary or inside a packet. After an injected deadline expiry in the middle of a packet the connection must be closed; one that goes back to reading is the verdict stall-not-an-error. Client-side cases may be preceded by one or two clients that were used and then closed twice, and be accompanied by a sibling client on a connection of its own that is used afterwards: each receives its own stream. TestC05EnumOverlap: connection A's handler looks at its (long) request when it starts and again before it returns while a long request is received and handled on connection B: what A was given stays what A's peer wrote.",
    "C11": "Command arguments include values that merely end in the <cr>/<CR> line-ending marker.",
    "C12": "One request in three is sent on the session id of the request before it with the next client sequence number (the updates of a task), naming any user. Text may contain octets outside US-ASCII, which makes the request undecodable (ERROR expected). One request in four is a near-copy of the one before it (arguments differing only in white space or in where one argument ends and the next begins). The text pool includes literal escape-like sequences (backslash-u003c, backslash-u0026, backslash-n, double backslash). One case in four also registers the syslog accounter on a unixgram socket owned by the harness (users with a SYSLOG accounter become accountable; the record must be queued on the socket when the reply arrives, exactly once, and decode to the request). One case in two uses a log.Logger over the recording sink (what SetLogSinkDefault builds over a file); in one case in three every 2nd or 3rd write of that logger reports an error after the line was taken. One request in five carries the standard attributes with values at the edges. TestC12EnumConcurrent: eight connections send 1000 different records each at the same moment (the recording sink yields before it renders what it is given); afterwards every acknowledged request has exactly one sink line that decodes to it. Words that the sources of the tree under test contain and testdata/known_literals.txt (the short string literals of the unchanged tree) does not are used as user names: such a user gets the file accounter, and requests name it or nobody.",
    "C18": "Half of the cases carry a third secret configuration with a key of its own whose prefix option is unusable; the loader's messages are searched for that key. Every log call is also passed to the reference logger of cmds/server/log at a drawn level (10/20/30/31/100) writing to a buffer, which is searched for the tokens as well. The misconfigured scope's prefix option may also be a list with good entries next to one that does not parse. Keys that the tree under test has beyond the configuration schema the harness models - struct fields found by reflection over config.ServerConfig, option names found as string literals in the sources of cmds/server - are written into two generated documents in three with values of the field's type (on the unchanged tree: the four comment fields). TestC18EnumSlowPassword: the password of an ASCII login (a searchable token) arrives 16.5 s of real time after the prompt (65 s in thorough) while other logins run on the connection. TestC18EnumPipelinedLogin: user name and password of an ASCII login go out in one write, with and without the single-connect flag; the login driver waits up to 150 ms for replies that arrive after the server went back to reading. TestC18EnumWatcherRefusedReload: the file watcher with a recording logger around both document loaders; a valid document whose shared secrets are tokens, then about a dozen rewrites the loader refuses (wrong types behind a key, cuts, stray punctuation): nothing logged may contain a secret that is still in force.",
    "C16": "Successor documents include filter lists with an entry the loader cannot parse. Half of the histories collect lazily: a document a fresh loader refuses is fed while the previous configuration is still uncollected on the channel, and that configuration must still be there afterwards. The real-watcher sub-test also replaces the file atomically (rename over the path) and then edits it in place; if nothing is published the verdict is taken from the process' inotify watch list (/proc/self/fdinfo), not from the clock. Keys that the tree under test has beyond the configuration schema the harness models - struct fields found by reflection over config.ServerConfig, option names found as string literals in the sources of cmds/server - are drawn anew for every document of a history, two times in three each, with values of the field's type (on the unchanged tree: the four comment fields). The real-watcher sub-test records the watcher's log: if nothing is published, the watcher's last action was to report a failed reload, it has been silent for three more seconds and a fresh loader accepts the file as it stands, that is the verdict watcher-reload-failed-for-acceptable-file. One history in four loads from a file that is rewritten in place and given its previous modification time back; successor documents include edits that leave the length unchanged (one letter of a name, one digit of a prefix). TestC16EnumLive: eleven fixed histories of documents (a scope dropped, keys changed, filters dropped, a document with 6000 users followed at once by small ones) loaded into a live stack in quick succession, both formats; after each (and after half a second where a large document is involved) the live stack answers like a freshly started one.",
    "C17": "Connections may also end in a read that fails with a connection reset. One scripted packet in three makes its handler register a continuation, so that a session is still open when the connection ends. In one case in four whoever cancels also closes the listener, so the server's own Close of it reports an error. One cancel-in-handler case in six keeps the handler at work for 10 ms after the cancellation; TestC17EnumSlowHandler does so for 2.5 s of real time in quick and 32 s in thorough (Serve returning meanwhile is the verdict; the duration only bounds the patience that can be detected). The scripted connection offers CloseWrite/CloseRead like a TCP connection. Connection scripts may end in a request under the wrong key that has the first octets of the next request behind it in the same read, followed by up to six single octets: if the server goes on reading, the deadline oracle judges how. (The thorough hold of TestC17EnumSlowHandler is 47 s.) One case in eight uses an empty (not nil) shared secret. Connection scripts include segments that end inside the next packet (a packet with the first 1 to 19 octets of the next behind it, then the rest).",
}
for _p, _t in RULE_ADDENDA.items():
    CHECKS[_p]["rule"] += " Also: " + _t
