# Per-property parameters of the driver.  quick/thorough = rapid cases per property function (total
# over all shards); rule = how cases are generated and what makes one non-trivial (goes to evidence).
COMMON_ASSUME = [
    "Go toolchain, crypto/md5 and pgregory.net/rapid are correct",
    "harness/model is a faithful reading of RFC 8907 (DESIGN.md 5c)",
]

CHECKS = {
    "C01": {
        "quick": 1500, "thorough": 60000,
        "rule": "rapid draws field values for each of the 9 codec types (every enum member, flag octets 0..255, "
                "boundary-biased lengths 0..255 / 0..65535, 0..255 arguments) plus an exhaustive enum/flag/length sweep; "
                "oracle = independent RFC 8907 byte-layout model in both directions. Non-trivial: >=2 variable fields "
                "non-empty, or >=1 argument, or a 2-octet length >=256 (header: flags/minor/seq>=253/length>=256). "
                "Distinct = distinct JSON of (codec, value).",
        "assumptions": COMMON_ASSUME,
    },
    "C02": {
        "quick": 800, "thorough": 30000,
        "rule": "encode-first: rapid draws a valid value of each of the 9 codec types and (3 of 4 cases) stretches one field/argument "
                "list to a width boundary (254..257, 65534..65537, 70000, 254..300 args) or spoils it (enum out of range, non-ASCII, "
                "priv>15, stop+watchdog); oracles: encode ok => decode(encode(v)) == v; !fits(v) by the harness' own width table => "
                "encode errors; Validate(v) != nil => encode errors. decode-first: model-encoded values plain / with trailing bytes / "
                "mutated / truncated / raw bytes; oracle: decode ok => encode ok and decode(encode(v)) == v. Plus a deterministic "
                "sweep of every boundary length of every field. Non-trivial: stretched, spoiled, swept or non-plain decode input.",
        "assumptions": COMMON_ASSUME,
    },
    "C04": {
        "quick": 1500, "thorough": 60000,
        "fuzz": [{"name": "FuzzC04UnmarshalAll", "seconds": 90}],
        "rule": "inputs for tacquito.Unmarshal on all 9 types and Request.Fields: raw bytes (0..70000), truncations and single-octet "
                "corruptions of model-encoded valid values (exhaustive over every cut and every fixed-part octet for a fixed set of "
                "values), each with exact capacity and with 1..70000 bytes of 0xEE-filled spare capacity behind the input; oracles: "
                "no panic, Validate()==nil on success, every variable field is a substring of input[:len] and equals the bytes at "
                "the model's offsets, field bytes total <= len(input), TotalAlloc delta <= 8*len+16KiB (every 8th case). "
                "Non-trivial: truncated/corrupted/valid input or spare capacity. Thorough adds native coverage-guided fuzzing.",
        "assumptions": COMMON_ASSUME + ["runtime.MemStats.TotalAlloc delta on a single goroutine with GC parked measures allocation of the call"],
    },
    "C03": {
        "quick": 1500, "thorough": 60000,
        "rule": "rapid draws (direction in server-read/server-write/client-write/client-read, secret of 0..300 arbitrary octets, "
                "session id edge-biased over uint32, minor 0/1, every sequence number of the direction, flag octet, body length "
                "0..65536 biased to 16k-1/16k/16k+1 and the limit) and a deterministic sweep of lengths 0..80 + block/limit "
                "boundaries and of every sequence number; oracle: raw bytes on the scripted connection equal header || cleartext XOR "
                "model pad (own MD5 chain), received cleartext equals sent cleartext, header/length unaltered, body verbatim with "
                "the unencrypted flag whatever the two secrets. Non-trivial: length >16 and not a multiple of 16, or >=4096, or "
                "clear flag with different secrets.",
        "assumptions": COMMON_ASSUME + ["scripted net.Conn is a faithful connection; client side reached through the verif-tag SetClientConn hook"],
    },
}
