#!/usr/bin/env python3
# usage: tools_seed_prompts.py <round-root, e.g. /tmp/seed13> <theme-file> [C01,C04,... (default: all)]
# Writes <root>/prompt-Cxx.txt for the 20 properties from seeded/PROMPT_TEMPLATE.txt (the agents get the
# property's text and their own worktree, nothing from /verif) and creates the worktrees <root>/wt-Cxx.
import json, os, subprocess, sys
root, theme = sys.argv[1], open(sys.argv[2]).read().strip()
tmpl = open(os.path.join(os.path.dirname(os.path.abspath(__file__)), 'seeded', 'PROMPT_TEMPLATE.txt')).read()
only = set(sys.argv[3].split(',')) if len(sys.argv) > 3 else None
os.makedirs(root, exist_ok=True)
for l in open('/verif/properties.jsonl'):
    d = json.loads(l)
    pid = d['id']
    if only and pid not in only:
        continue
    wt = f"{root}/wt-{pid}"
    prop = (f"TITLE: {d['title']}\nSTATEMENT: {d['statement']}\nQUANTIFIED OVER: {d['quantifier']['text']}\n"
            f"CODE MOST RELEVANT TO IT: {', '.join(d['anchors']['files'])}")
    t = tmpl.replace('{WT}', wt).replace('{ROOT}', root).replace('{PID}', pid).replace('{PROPERTY}', prop).replace('{THEME}', theme)
    open(f"{root}/prompt-{pid}.txt", 'w').write(t)
    if not os.path.isdir(wt):
        subprocess.run(['git', '-C', '/repo', 'worktree', 'add', '--detach', wt, 'HEAD'], check=True, stdout=subprocess.DEVNULL, stderr=subprocess.DEVNULL)
print("prompts and worktrees in", root)
