#!/bin/bash
# re-applies every archived seeded change to /repo, runs the check that is recorded as catching it
# (quick tier, seed from VERIF_SEED or 1) and restores /repo.  Prints one line per seed.
cd "$(dirname "$(readlink -f "$0")")" || exit 2
[ -n "$(git -C /repo status --porcelain)" ] && { echo "repo dirty"; exit 2; }
export VERIF_EVIDENCE_DIR="$PWD/.build/mutant-evidence"
# the run takes about an hour: work on a frozen copy of the harness so that edits made meanwhile do not matter
snap=$(mktemp -d /tmp/verif-harness-snap.XXXXXX)
cp -r harness/. "$snap"/
export VERIF_HARNESS_DIR="$snap"
trap 'rm -rf "$snap"' EXIT
miss=0
for d in seeded/*/; do
  name=$(basename "$d")
  # optional filter: only the seeds whose name matches $1 (a grep -E pattern)
  if [ -n "${1:-}" ] && ! echo "$name" | grep -qE "$1"; then continue; fi
  chk=$(python3 - "$d/meta.json" <<'PY'
import json,re,sys
m=json.load(open(sys.argv[1]))
# the last "vcheck Cxx quick" segment of the note that ends in a VIOLATION verdict
segs=re.split(r'(?=vcheck C\d\d quick)', m['checks_run'])
hits=[re.match(r'vcheck (C\d\d) quick', s).group(1) for s in segs if s.startswith('vcheck') and 'VIOLATION' in s]
print(hits[-1] if hits else "")
PY
)
  if [ -z "$chk" ]; then echo "$name: no catching check recorded (out of scope / duplicate)"; continue; fi
  git -C /repo apply "$PWD/$d/patch.diff" 2>/dev/null || { echo "$name: PATCH DOES NOT APPLY"; miss=$((miss+1)); continue; }
  out=$(./vcheck "$chk" quick 2>&1 | grep -E "^(VIOLATION|OK|INCONCLUSIVE|BUILD-FAILED)" | head -1)
  git -C /repo checkout -- .
  case "$out" in VIOLATION*) echo "$name: $chk ${out%% replay=*}";; *) echo "$name: $chk NOT REPORTED -> $out"; miss=$((miss+1));; esac
done
echo "seeds not reported: $miss"
