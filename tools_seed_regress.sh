#!/bin/bash
# Re-applies every archived seeded change and runs the check that is recorded as catching it (quick tier,
# seed from VERIF_SEED or 1).  Prints one line per seed.  /repo itself is not touched: the work is
# spread over N scratch worktrees of /repo's HEAD under /tmp (removed afterwards), each with a frozen
# copy of the harness whose go.mod points at that worktree.
# usage: tools_seed_regress.sh [name-regex] [workers=6]
cd "$(dirname "$(readlink -f "$0")")" || exit 2
pat="${1:-.}"; n="${2:-6}"
export VERIF_EVIDENCE_DIR="$PWD/.build/mutant-evidence"
root=$(mktemp -d /tmp/verif-regress.XXXXXX)
trap 'for k in $(seq 1 $n); do git -C /repo worktree remove --force "$root/wt$k" 2>/dev/null; done; git -C /repo worktree prune; rm -rf "$root"' EXIT
seeds=$(ls -d seeded/*/ | xargs -n1 basename | grep -E "$pat")
worker() {
  k=$1; wt="$root/wt$k"; hs="$root/h$k"
  git -C /repo worktree add --detach "$wt" HEAD >/dev/null 2>&1 || { echo "worker $k: cannot create worktree"; return; }
  mkdir -p "$hs"; cp -r harness/. "$hs"/; sed -i "s|=> /repo|=> $wt|" "$hs/go.mod"
  i=0
  for name in $seeds; do
    i=$((i+1)); [ $((i % n)) -eq $((k % n)) ] || continue
    chk=$(python3 - "seeded/$name/meta.json" <<'PY'
import json,re,sys
m=json.load(open(sys.argv[1]))
# the last "vcheck Cxx quick|thorough" segment of the note that ends in a VIOLATION verdict
segs=re.split(r'(?=vcheck C\d\d (?:quick|thorough))', m['checks_run'])
hits=[' '.join(re.match(r'vcheck (C\d\d) (quick|thorough)', s).groups()) for s in segs if s.startswith('vcheck') and 'VIOLATION' in s]
print(hits[-1] if hits else "")
PY
)
    if [ -z "$chk" ]; then echo "$name: no catching check recorded (out of scope / duplicate)"; continue; fi
    git -C "$wt" apply "$PWD/seeded/$name/patch.diff" 2>/dev/null || { echo "$name: PATCH DOES NOT APPLY"; continue; }
    tier=${chk#* }; chk=${chk% *}
    # a change that only the thorough tier reports: deterministic part in full, generated part cut short
    [ "$tier" = thorough ] && export VERIF_CHECKS=1400 || unset VERIF_CHECKS
    out=$(VERIF_REPO_DIR="$wt" VERIF_HARNESS_DIR="$hs" ./vcheck "$chk" "$tier" 2>&1 | grep -E "^(VIOLATION|OK|INCONCLUSIVE|BUILD-FAILED)" | head -1)
    git -C "$wt" checkout -- . ; git -C "$wt" clean -fdq
    case "$out" in VIOLATION*) echo "$name: $chk${tier#quick} ${out%% replay=*}";; *) echo "$name: $chk NOT REPORTED -> $out";; esac
  done
}
for k in $(seq 1 $n); do worker $k & done
wait
echo "regress done"
