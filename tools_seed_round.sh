#!/bin/bash
# usage: tools_seed_round.sh <root> <Cxx> [extra checks]   (root/wt-Cxx/SEED with meta.json demo_dest/demo_pkg/demo_run)
root="$1"; p="$2"; shift 2
d="$root/wt-$p/SEED"
[ -f "$d/meta.json" ] || { echo "no meta.json in $d"; exit 2; }
read -r dest pkg run < <(python3 - "$d/meta.json" <<'PY'
import json,sys
m=json.load(open(sys.argv[1]))
import re
run=m.get('demo_run','?').strip()
run=re.sub(r'^-run\s+','',run)          # some agents write the flag as well
run=run.split()[0].strip("'\"") if run else '?'   # and some append remarks
print(m.get('demo_dest','?'), m.get('demo_pkg','?'), run)
PY
)
demo=$(basename "$dest").txt
[ -f "$d/$demo" ] || demo=$(ls "$d" | grep -E '\.go(\.txt)?$' | head -1)
# a demonstration that needs the race detector says so in its -run text or in demo.md
if grep -qi -- "-race" "$d/demo.md" 2>/dev/null; then export SEED_VERIFY_RACE=1; else unset SEED_VERIFY_RACE; fi
echo "== $p demo=$demo dest=$dest pkg=$pkg run=$run"
/verif/tools_seed_verify.sh "$d" "$demo" "$dest" "$pkg" "$run"
/verif/tools_seed_eval.sh "$p" "$d" "$@" 2>&1 | grep -v "^suite with patch" | tail -3
