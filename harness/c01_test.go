package harness

import (
	"bytes"
	"encoding/json"
	"fmt"
	"reflect"
	"testing"

	"verif/harness/ev"
	"verif/harness/model"

	"pgregory.net/rapid"
)

// C01 — the bytes the library produces/accepts are the RFC 8907 layout, judged by the independent
// model (not by the library's own inverse).

type codecCase struct {
	Codec string          `json:"codec"`
	Value json.RawMessage `json:"value"`
}

func modelFromJSON(name string, raw json.RawMessage) (interface{}, error) {
	var err error
	switch name {
	case "Header":
		var v model.Header
		err = json.Unmarshal(raw, &v)
		return v, err
	case "Packet":
		var v PacketM
		err = json.Unmarshal(raw, &v)
		return v, err
	case "AuthenStart":
		var v model.AuthenStart
		err = json.Unmarshal(raw, &v)
		return v, err
	case "AuthenReply":
		var v model.AuthenReply
		err = json.Unmarshal(raw, &v)
		return v, err
	case "AuthenContinue":
		var v model.AuthenContinue
		err = json.Unmarshal(raw, &v)
		return v, err
	case "AuthorRequest":
		var v model.AuthorRequest
		err = json.Unmarshal(raw, &v)
		return v, err
	case "AuthorReply":
		var v model.AuthorReply
		err = json.Unmarshal(raw, &v)
		return v, err
	case "AcctRequest":
		var v model.AcctRequest
		err = json.Unmarshal(raw, &v)
		return v, err
	case "AcctReply":
		var v model.AcctReply
		err = json.Unmarshal(raw, &v)
		return v, err
	}
	return nil, fmt.Errorf("unknown codec %q", name)
}

func mkCodecCase(c *codec, m interface{}) codecCase {
	raw, _ := json.Marshal(m)
	return codecCase{Codec: c.name, Value: raw}
}

// normalise nil/empty so that DeepEqual compares contents only.
func normModel(m interface{}) interface{} {
	raw, _ := json.Marshal(m)
	var v interface{}
	_ = json.Unmarshal(raw, &v)
	return dropEmpty(v)
}

func dropEmpty(v interface{}) interface{} {
	switch x := v.(type) {
	case []interface{}:
		if len(x) == 0 {
			return nil
		}
		for i := range x {
			x[i] = dropEmpty(x[i])
		}
	case map[string]interface{}:
		for k := range x {
			x[k] = dropEmpty(x[k])
		}
	}
	return v
}

func sameModel(a, b interface{}) bool { return reflect.DeepEqual(normModel(a), normModel(b)) }

// expectedDecode is what the statement says decoding yields: the fields carried, with the header's
// single-connect bit turned on for sequence number 2 (documented behaviour).
func expectedDecode(c *codec, m interface{}) interface{} {
	switch v := m.(type) {
	case model.Header:
		if v.Seq == 2 {
			v.Flags |= model.FlagSingleConnect
		}
		return v
	case PacketM:
		if v.H.Seq == 2 {
			v.H.Flags |= model.FlagSingleConnect
		}
		return v
	}
	return m
}

func checkC01(t failer, c *codec, m interface{}) {
	ev.Eval()
	cc := mkCodecCase(c, m)
	// encode direction
	lib := c.toLib(m)
	got, err := lib.MarshalBinary()
	if mk := viaOptions[c.name]; mk != nil {
		// the same value made with the constructor and option setters encodes the same
		got2, err2 := mk(m).MarshalBinary()
		if (err2 != nil) != (err != nil) || !bytes.Equal(got, got2) {
			violation(t, "C01", c.name, "C01:"+c.name+":constructor-built-value-encodes-differently", cc,
				"%s: the value built with New%s(Set...) and the same value as a struct literal encode differently\n options: err=%v %x\n literal: err=%v %x", c.name, c.name, err2, clip(got2), err, clip(got))
		}
		ev.Class(c.name + ":also-built-via-options")
	}
	if err != nil {
		// values the encoder refuses are outside the property's domain
		ev.Class(c.name + ":rejected")
		return
	}
	want := c.encode(m)
	if !bytes.Equal(got, want) {
		violation(t, "C01", c.name, "C01:"+c.name+":encode-differs-from-rfc-layout", cc,
			"%s: library encoding differs from RFC layout\n lib  =%x\n model=%x", c.name, clip(got), clip(want))
	}
	// decode direction: bytes laid out by the model
	dec := c.newLib()
	if err := dec.UnmarshalBinary(append([]byte{}, want...)); err != nil {
		violation(t, "C01", c.name, "C01:"+c.name+":decode-rejects-rfc-layout", cc,
			"%s: library refuses RFC-laid-out bytes of a value its encoder accepts: %v", c.name, err)
	}
	back := c.fromLib(dec)
	if exp := expectedDecode(c, m); !sameModel(back, exp) {
		violation(t, "C01", c.name, "C01:"+c.name+":decode-differs-from-rfc-layout", cc,
			"%s: decoding RFC-laid-out bytes yields other field values\n got =%s\n want=%s", c.name, js(back), js(exp))
	}
	checkDirtyTarget(t, "C01", c, want, back, cc)
	keepEncoding(t, "C01", c, got, want, cc)
	ev.Class(c.name + ":ok")
	if c.nontrivial(m) {
		ev.NonTrivial(c.name, cc)
	}
}

func clip(b []byte) []byte {
	if len(b) > 96 {
		return b[:96]
	}
	return b
}

func js(v interface{}) string {
	b, _ := json.Marshal(v)
	if len(b) > 600 {
		return string(b[:600]) + "…"
	}
	return string(b)
}

func TestC01(t *testing.T) {
	for i := range codecs {
		c := &codecs[i]
		t.Run(c.name, func(t *testing.T) {
			rapid.Check(t, func(rt *rapid.T) {
				checkC01(rt, c, c.gen(rt))
			})
		})
	}
}

// TestC01Enum cycles exhaustively through every enum member and every flag octet (not sampled).
func TestC01Enum(t *testing.T) {
	for _, minor := range []byte{0, 1} {
		for typ := byte(1); typ <= 3; typ++ {
			for flags := 0; flags < 256; flags++ {
				for _, seq := range []byte{1, 2, 3, 255} {
					checkC01(t, codecByName("Header"), model.Header{Version: 0xc0 | minor, Type: typ, Seq: seq, Flags: byte(flags), Session: 0x01020304, Length: 0x0000a1b2})
				}
			}
		}
	}
	for seq := 1; seq <= 255; seq++ {
		checkC01(t, codecByName("Header"), model.Header{Version: 0xc1, Type: 2, Seq: byte(seq), Session: 0xfffefdfc, Length: 65536})
	}
	for _, action := range authenActions {
		for _, at := range authenTypes {
			for _, svc := range authenServices {
				for priv := byte(0); priv <= 15; priv++ {
					checkC01(t, codecByName("AuthenStart"), model.AuthenStart{Action: action, Priv: priv, AType: at, Service: svc,
						User: b("u"), Port: b("pp"), RemAddr: b("rrr"), Data: b("dddd")})
				}
			}
		}
	}
	for _, st := range authenStatuses {
		for flags := 0; flags < 256; flags++ {
			checkC01(t, codecByName("AuthenReply"), model.AuthenReply{Status: st, Flags: byte(flags), ServerMsg: b("msg"), Data: b("da")})
		}
	}
	for flags := 0; flags < 256; flags++ {
		checkC01(t, codecByName("AuthenContinue"), model.AuthenContinue{Flags: byte(flags), UserMsg: b("um"), Data: b("dat")})
	}
	for _, me := range authenMethods {
		for _, at := range authenTypes0 {
			for _, svc := range authenServices {
				checkC01(t, codecByName("AuthorRequest"), model.AuthorRequest{Method: me, Priv: 15, AType: at, Service: svc,
					User: b("u"), Port: b("pp"), RemAddr: b("rrr"), Args: []model.B{b("service=shell"), b("cmd=")}})
				for flags := 0; flags < 256; flags++ {
					if flags&0x04 != 0 && flags&0x08 != 0 {
						continue
					}
					if svc != 1 && flags > 16 {
						continue
					}
					checkC01(t, codecByName("AcctRequest"), model.AcctRequest{Flags: byte(flags), Method: me, Priv: 1, AType: at, Service: svc,
						User: b("u"), Port: b("pp"), RemAddr: b("rrr"), Args: []model.B{b("a"), b(""), b("task_id=1")}})
				}
			}
		}
	}
	for _, st := range authorStatuses {
		checkC01(t, codecByName("AuthorReply"), model.AuthorReply{Status: st, ServerMsg: b("m"), Data: b("dd"), Args: []model.B{b("priv-lvl=15")}})
	}
	for _, st := range acctStatuses {
		checkC01(t, codecByName("AcctReply"), model.AcctReply{Status: st, ServerMsg: b("m"), Data: b("dd")})
	}
	// every length of a one-octet field and the 2-octet boundary lengths, exhaustively
	for n := 0; n <= 255; n++ {
		f := bytes.Repeat([]byte{'a' + byte(n%26)}, n)
		checkC01(t, codecByName("AuthenStart"), model.AuthenStart{Action: 1, Priv: 1, AType: 2, Service: 1, User: f, Port: b("p"), RemAddr: f, Data: b("x")})
		checkC01(t, codecByName("AuthenStart"), model.AuthenStart{Action: 1, Priv: 1, AType: 2, Service: 1, User: b("u"), Port: f, RemAddr: b("r"), Data: f})
		args := make([]model.B, n)
		for i := range args {
			args[i] = bytes.Repeat([]byte{'0' + byte(i%10)}, 2+i%3)
		}
		checkC01(t, codecByName("AuthorRequest"), model.AuthorRequest{Method: 6, Priv: 1, AType: 1, Service: 1, User: b("u"), Args: args})
		checkC01(t, codecByName("AuthorReply"), model.AuthorReply{Status: 1, ServerMsg: b("ok"), Args: args})
		checkC01(t, codecByName("AcctRequest"), model.AcctRequest{Flags: 2, Method: 6, Priv: 1, AType: 1, Service: 1, User: b("u"), Args: args})
		if n >= 2 {
			checkC01(t, codecByName("AuthorRequest"), model.AuthorRequest{Method: 6, Priv: 1, AType: 1, Service: 1, User: b("u"), Args: []model.B{f, b("zz")}})
		}
		checkC01(t, codecByName("AcctRequest"), model.AcctRequest{Flags: 4, Method: 6, Priv: 1, AType: 1, Service: 1, User: b("u"), Args: []model.B{f, b("")}})
	}
	for _, n := range []int{0, 1, 255, 256, 257, 65534, 65535} {
		f := bytes.Repeat([]byte{'k'}, n)
		checkC01(t, codecByName("AuthenReply"), model.AuthenReply{Status: 1, ServerMsg: f, Data: b("d")})
		checkC01(t, codecByName("AuthenReply"), model.AuthenReply{Status: 1, ServerMsg: b("m"), Data: f})
		checkC01(t, codecByName("AuthenContinue"), model.AuthenContinue{UserMsg: f, Data: b("d")})
		checkC01(t, codecByName("AuthenContinue"), model.AuthenContinue{UserMsg: b("m"), Data: f})
		checkC01(t, codecByName("AuthorReply"), model.AuthorReply{Status: 1, ServerMsg: f, Data: b("d")})
		checkC01(t, codecByName("AuthorReply"), model.AuthorReply{Status: 1, ServerMsg: b("m"), Data: f})
		checkC01(t, codecByName("AcctReply"), model.AcctReply{Status: 1, ServerMsg: f, Data: b("d")})
		checkC01(t, codecByName("AcctReply"), model.AcctReply{Status: 1, ServerMsg: b("m"), Data: f})
	}
}

// TestC01Regress replays the saved cases (corpus, or $VERIF_REPLAY_FILE) without rapid.
func TestC01Regress(t *testing.T) {
	for _, s := range loadSaved(t, "C01") {
		var cc codecCase
		mustUnmarshal(t, s, &cc)
		c := codecByName(cc.Codec)
		if c == nil {
			t.Fatalf("%s: unknown codec %q", s.Note, cc.Codec)
		}
		m, err := modelFromJSON(cc.Codec, cc.Value)
		if err != nil {
			t.Fatalf("%s: %v", s.Note, err)
		}
		checkC01(t, c, m)
	}
}
