package harness

import (
	"bytes"
	"context"
	"runtime"
	"runtime/debug"
	"testing"

	tq "github.com/facebookincubator/tacquito"
	"verif/harness/ev"
	"verif/harness/model"

	"pgregory.net/rapid"
)

// C04 — decoding arbitrary bytes is total, memory-safe and bounded.

type c04Case struct {
	Codec string  `json:"codec"`
	Bytes model.B `json:"bytes"`
	Spare int     `json:"spare"` // extra capacity behind the input, filled with a sentinel
	// Prev, if set, is what the reused decode target was filled from beforehand (the valid encoding the
	// input was derived from): a receiver recycled between packets
	Prev model.B `json:"prev,omitempty"`
}

const sentinel = 0xEE

// withSpare returns in as a slice of a larger array whose tail is sentinel bytes.
func withSpare(in []byte, spare int) []byte {
	buf := make([]byte, len(in)+spare)
	copy(buf, in)
	for i := len(in); i < len(buf); i++ {
		buf[i] = sentinel
	}
	return buf[:len(in)]
}

func libFields(c *codec, v tq.EncoderDecoder) []model.B {
	return c.fields(c.fromLib(v))
}

// allocDuring measures bytes allocated by f on this goroutine (GC parked, best of 3 on suspicion).
func allocDuring(f func()) uint64 {
	var a, b runtime.MemStats
	runtime.ReadMemStats(&a)
	f()
	runtime.ReadMemStats(&b)
	return b.TotalAlloc - a.TotalAlloc
}

var c04Keys = []tq.ContextKey{tq.ContextReqID, tq.ContextSessionID, tq.ContextConnRemoteAddr, tq.ContextConnLocalAddr, tq.ContextUser, tq.ContextRemoteAddr, tq.ContextPort}

var c04Ctx = func() context.Context {
	ctx := context.Background()
	for _, k := range c04Keys {
		ctx = context.WithValue(ctx, k, "v-"+string(k))
	}
	return ctx
}()

func checkC04(t failer, c *codec, in []byte, spare int, label string, prev ...[]byte) {
	ev.Eval()
	cc := c04Case{Codec: c.name, Bytes: in, Spare: spare}
	if len(prev) > 0 {
		cc.Prev = prev[0]
	}
	input := withSpare(in, spare)
	v := c.newLib()
	var err error
	if p := catch(func() { err = tq.Unmarshal(input, v) }); p != nil {
		violation(t, "C04", c.name, "C04:"+c.name+":decode-panics", cc, "%s: decoding %d bytes panics: %v", c.name, len(in), p)
	}
	// Request.Fields on the same bytes, for every packet type, must not panic either
	for typ := 1; typ <= 3; typ++ {
		if p := catch(func() {
			tq.Request{Header: tq.Header{Type: tq.HeaderType(typ)}, Body: input}.Fields()
			// and the way the reference handlers call it: with context keys whose values are in the context
			tq.Request{Header: tq.Header{Type: tq.HeaderType(typ)}, Body: input, Context: c04Ctx}.Fields(c04Keys...)
		}); p != nil {
			violation(t, "C04", "Request.Fields", "C04:Request.Fields:panics", cc, "Request.Fields (type %d) panics on %d bytes: %v", typ, len(in), p)
		}
	}
	if err != nil {
		ev.Class(c.name + ":refused:" + label)
		if label != "raw" || spare > 0 {
			ev.NonTrivial(c.name+":refused:"+label, cc)
		}
		c04Reused(t, c, in, cc, true)
		return
	}
	if verr := c.validate(v); verr != nil {
		violation(t, "C04", c.name, "C04:"+c.name+":decoded-value-invalid", cc, "%s: decoded without error but the value fails its own Validate: %v", c.name, verr)
	}
	// the rules the harness states itself (the value's Validate may have been silenced together with the decoder)
	if bad, rule := argRuleBroken(c.fromLib(v)); bad {
		violation(t, "C04", c.name, "C04:"+c.name+":decoded-value-invalid", cc, "%s: decoded without error but the value breaks a rule of its type: %s", c.name, rule)
	}
	// every variable field consists of bytes from inside input[:len]
	fs := libFields(c, v)
	total := 0
	for i, f := range fs {
		total += len(f)
		if bytes.IndexByte(f, sentinel) >= 0 && bytes.IndexByte(in, sentinel) < 0 {
			violation(t, "C04", c.name, "C04:"+c.name+":reads-past-end", cc, "%s: field %d contains bytes from beyond the end of the input (sentinel 0xEE)", c.name, i)
		}
		if !bytes.Contains(in, f) {
			violation(t, "C04", c.name, "C04:"+c.name+":field-not-from-input", cc, "%s: field %d (%d bytes) is not a substring of the input", c.name, i, len(f))
		}
	}
	if total > len(in) {
		violation(t, "C04", c.name, "C04:"+c.name+":reads-past-end", cc, "%s: decoded fields total %d bytes from an input of %d", c.name, total, len(in))
	}
	// when the announced lengths are all available the fields are exactly the model's fields
	if m, ok, _ := c.decode(in); ok {
		mf := c.fields(m)
		if len(mf) != len(fs) {
			violation(t, "C04", c.name, "C04:"+c.name+":fields-differ-from-layout", cc, "%s: %d variable fields decoded, layout has %d", c.name, len(fs), len(mf))
		}
		for i := range mf {
			if !bytes.Equal(mf[i], fs[i]) {
				violation(t, "C04", c.name, "C04:"+c.name+":fields-differ-from-layout", cc, "%s: field %d differs from the bytes at its offset in the input", c.name, i)
			}
		}
	}
	c04Reused(t, c, in, cc, false)
	ev.Class(c.name + ":decoded:" + label)
	if label != "raw" || spare > 0 {
		ev.NonTrivial(c.name+":decoded:"+label, cc)
	}
}

// c04Reused decodes the same input into values that already hold something else (a fully populated
// value, and the value decoded from cc.Prev): whether the decode succeeds, and every field of the
// result, must come from this input alone.
func c04Reused(t failer, c *codec, in []byte, cc c04Case, freshRefused bool) {
	targets := []tq.EncoderDecoder{c.toLib(dirtyModels[c.name])}
	if len(cc.Prev) > 0 {
		pv := c.newLib()
		if p := catch(func() {
			if tq.Unmarshal(append([]byte{}, cc.Prev...), pv) == nil {
				targets = append(targets, pv)
				ev.Class(c.name + ":recycled-receiver")
			}
		}); p != nil {
			return // reported by the case that has Prev as its input
		}
	}
	for _, dirty := range targets {
		var err error
		if p := catch(func() { err = tq.Unmarshal(append([]byte{}, in...), dirty) }); p != nil {
			violation(t, "C04", c.name, "C04:"+c.name+":decode-panics", cc, "%s: decoding %d bytes into a reused value panics: %v", c.name, len(in), p)
		}
		if (err != nil) != freshRefused {
			violation(t, "C04", c.name, "C04:"+c.name+":outcome-depends-on-receiver", cc, "%s: the same %d bytes are refused=%v by a fresh value and refused=%v by a reused one", c.name, len(in), freshRefused, err != nil)
		}
		if err != nil {
			continue
		}
		for i, f := range libFields(c, dirty) {
			if len(f) > 0 && !bytes.Contains(in, f) {
				violation(t, "C04", c.name, "C04:"+c.name+":field-not-from-input", cc, "%s: decoded into a reused value, field %d (%q) does not come from the input", c.name, i, clip(f))
			}
		}
		if verr := c.validate(dirty); verr != nil {
			violation(t, "C04", c.name, "C04:"+c.name+":decoded-value-invalid", cc, "%s: decoded into a reused value without error but the value fails Validate: %v", c.name, verr)
		}
	}
}

// checkC04Alloc bounds the memory a decode may allocate: a small multiple of the input.
func checkC04Alloc(t failer, c *codec, in []byte) {
	ev.Eval()
	input := append([]byte{}, in...)
	bound := uint64(8*len(in) + 16<<10)
	best := ^uint64(0)
	for try := 0; try < 3; try++ {
		v := c.newLib()
		n := allocDuring(func() { catch(func() { _ = tq.Unmarshal(input, v) }) })
		if n < best {
			best = n
		}
		if best <= bound {
			break
		}
	}
	if best > bound {
		violation(t, "C04", c.name, "C04:"+c.name+":allocation-unbounded", c04Case{Codec: c.name, Bytes: in},
			"%s: decoding %d bytes allocated %d bytes (bound %d)", c.name, len(in), best, bound)
	}
	ev.Class(c.name + ":alloc-bounded")
}

func genC04Input(t *rapid.T, c *codec) ([]byte, string, []byte) {
	switch rapid.IntRange(0, 6).Draw(t, "input_kind") {
	case 0:
		return rapid.SliceOfN(rapid.Byte(), 0, 80).Draw(t, "raw"), "raw", nil
	case 1:
		// raw bytes behind a plausible fixed part
		n := rapid.SampledFrom([]int{0, 1, 4, 5, 6, 8, 9, 11, 12, 13, 30, 300, 65548, 65549, 70000}).Draw(t, "rawlen")
		return genBytes(t, "rawfill", n, alphaAny), "raw", nil
	case 2, 3:
		enc := c.encode(c.gen(t))
		full := append([]byte{}, enc...)
		if len(enc) > 0 {
			enc = enc[:rapid.IntRange(0, len(enc)-1).Draw(t, "cut")]
		}
		return enc, "truncated", full
	case 4, 5:
		enc := c.encode(c.gen(t))
		full := append([]byte{}, enc...)
		if len(enc) > 0 {
			hi := min(len(enc)-1, 24)
			pos := rapid.IntRange(0, hi).Draw(t, "pos")
			old := enc[pos]
			enc[pos] = rapid.SampledFrom([]byte{0, 1, old - 1, old + 1, 255, old ^ 0x80}).Draw(t, "val")
		}
		return enc, "corrupted", full
	default:
		return c.encode(c.gen(t)), "valid", c.encode(c.gen(t))
	}
}

func TestC04(t *testing.T) {
	defer debug.SetGCPercent(debug.SetGCPercent(-1))
	for i := range codecs {
		c := &codecs[i]
		t.Run(c.name, func(t *testing.T) {
			n := 0
			rapid.Check(t, func(rt *rapid.T) {
				in, label, prev := genC04Input(rt, c)
				spare := rapid.SampledFrom([]int{0, 0, 1, 16, 300, 70000}).Draw(rt, "spare")
				checkC04(rt, c, in, spare, label, prev)
				if n++; n%8 == 0 {
					checkC04Alloc(rt, c, in)
				}
				if n%256 == 0 {
					runtime.GC()
				}
			})
		})
	}
}

// TestC04Enum: for a fixed set of valid values of every type, every truncation point and every
// single-octet corruption of the fixed part / length octets, with and without spare capacity.
func TestC04Enum(t *testing.T) {
	defer debug.SetGCPercent(debug.SetGCPercent(-1))
	args := []model.B{b("service=shell"), b("cmd=show"), b("cmd-arg=version")}
	values := map[string][]interface{}{
		"Header": {model.Header{Version: 0xc1, Type: 1, Seq: 1, Flags: 4, Session: 77, Length: 20}},
		"Packet": {PacketM{H: model.Header{Version: 0xc0, Type: 2, Seq: 3, Session: 5, Length: 24}, Body: fill(24, 'b')}},
		"AuthenStart": {model.AuthenStart{Action: 1, Priv: 1, AType: 2, Service: 1, User: b("alice"), Port: b("tty0"), RemAddr: b("10.0.0.1"), Data: b("secret")},
			model.AuthenStart{Action: 1, Priv: 15, AType: 1, Service: 2}},
		"AuthenReply":    {model.AuthenReply{Status: 5, Flags: 1, ServerMsg: b("password:"), Data: b("xy")}},
		"AuthenContinue": {model.AuthenContinue{Flags: 0, UserMsg: b("hunter2"), Data: b("d")}},
		"AuthorRequest":  {model.AuthorRequest{Method: 6, Priv: 1, AType: 1, Service: 1, User: b("alice"), Port: b("tty0"), RemAddr: b("r"), Args: args}},
		"AuthorReply":    {model.AuthorReply{Status: 1, ServerMsg: b("ok"), Data: b("dd"), Args: args}},
		"AcctRequest":    {model.AcctRequest{Flags: 2, Method: 6, Priv: 1, AType: 1, Service: 1, User: b("alice"), Port: b("tty0"), RemAddr: b("r"), Args: append(args, b(""))}},
		"AcctReply":      {model.AcctReply{Status: 1, ServerMsg: b("logged"), Data: b("dd")}},
	}
	for i := range codecs {
		c := &codecs[i]
		for _, m := range values[c.name] {
			enc := c.encode(m)
			for _, spare := range []int{0, 64} {
				for cut := 0; cut <= len(enc); cut++ {
					checkC04(t, c, enc[:cut], spare, "truncated", enc)
				}
				for pos := 0; pos < len(enc) && pos < 20; pos++ {
					for _, val := range []byte{0, 1, enc[pos] - 1, enc[pos] + 1, 127, 128, 255} {
						mut := append([]byte{}, enc...)
						mut[pos] = val
						checkC04(t, c, mut, spare, "corrupted", enc)
					}
				}
			}
			checkC04Alloc(t, c, enc)
		}
		// hostile constants: maximal counts/lengths with nothing behind them
		for _, n := range []int{5, 6, 8, 9, 12, 16, 64} {
			checkC04(t, c, bytes.Repeat([]byte{0xff}, n), 0, "corrupted")
			checkC04(t, c, bytes.Repeat([]byte{0xff}, n), 4096, "corrupted")
			checkC04Alloc(t, c, bytes.Repeat([]byte{0xff}, n))
			checkC04(t, c, bytes.Repeat([]byte{0x00}, n), 0, "corrupted")
		}
	}
	// header lengths around the 65536 cap with a short tail
	for _, l := range []uint32{0, 1, 5, 6, 100, 65535, 65536, 65537, 1 << 24, 0xffffffff} {
		in := append(model.EncodeHeader(model.Header{Version: 0xc0, Type: 1, Seq: 1, Session: 9, Length: l}), 1, 2, 3, 4, 5)
		for _, spare := range []int{0, 200, 70000} {
			checkC04(t, codecByName("Packet"), in, spare, "corrupted")
		}
		checkC04Alloc(t, codecByName("Packet"), in)
	}
}

func TestC04Regress(t *testing.T) {
	for _, s := range loadSaved(t, "C04") {
		var cc c04Case
		mustUnmarshal(t, s, &cc)
		if cc.Codec == "Request.Fields" {
			cc.Codec = "AuthenStart"
		}
		c := codecByName(cc.Codec)
		if c == nil {
			t.Fatalf("%s: unknown codec %q", s.Note, cc.Codec)
		}
		checkC04(t, c, cc.Bytes, cc.Spare, "saved", cc.Prev)
		checkC04Alloc(t, c, cc.Bytes)
	}
}

// FuzzC04UnmarshalAll is the coverage-guided variant (thorough tier).
func FuzzC04UnmarshalAll(f *testing.F) {
	for i := range codecs {
		c := &codecs[i]
		f.Add(bytes.Repeat([]byte{0xff}, 16), uint8(i), uint8(0))
		f.Add([]byte{}, uint8(i), uint8(3))
		_ = c
	}
	f.Add(append(model.EncodeHeader(model.Header{Version: 0xc0, Type: 1, Seq: 1, Length: 100}), 1, 2, 3), uint8(1), uint8(200))
	f.Add(model.AuthenStart{Action: 1, Priv: 1, AType: 2, Service: 1, User: b("alice"), Port: b("tty0"), RemAddr: b("r"), Data: b("pw")}.Encode(), uint8(2), uint8(0))
	f.Add(model.AuthorRequest{Method: 6, Priv: 1, AType: 1, Service: 1, User: b("alice"), Args: []model.B{b("service=shell"), b("cmd=")}}.Encode(), uint8(5), uint8(9))
	f.Add(model.AcctRequest{Flags: 2, Method: 6, Priv: 1, AType: 1, Service: 1, User: b("alice"), Args: []model.B{b("task_id=1")}}.Encode(), uint8(7), uint8(0))
	f.Add(model.AuthorReply{Status: 1, ServerMsg: b("m"), Args: []model.B{b("priv-lvl=15")}}.Encode(), uint8(6), uint8(0))
	f.Fuzz(func(t *testing.T, data []byte, which uint8, spare uint8) {
		c := &codecs[int(which)%len(codecs)]
		checkC04(t, c, data, int(spare), "fuzz")
	})
}
