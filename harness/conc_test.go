package harness

import (
	"bytes"
	"fmt"
	"runtime"
	"sync"
	"testing"

	"verif/harness/ev"
	"verif/harness/model"

	"pgregory.net/rapid"
)

// Codec properties under overlap.  The generated cases of C01, C02 and C04 run one after the other on one
// goroutine; state shared between calls (pools, scratch buffers, free lists) only shows when calls overlap
// or when a result is still held while the next call runs.  Two additions, both judged by the ordinary
// oracles (the model's encoding, the round trip):
//
//   - keptEncodings: the last few encodings the library returned are kept and compared with the model
//     again after every later encode (an encoder's result is the caller's; nothing may write to it).
//   - codecsConcurrently: 64 goroutines, each with values of its own drawn by the ordinary generators,
//     encode, decode and re-check in a loop, yielding in between.

type keptEnc struct {
	codec     string
	got, want []byte
	cc        codecCase
}

var keptEncodings []keptEnc

// keepEncoding remembers an encoding (long ones only, up to eight) and re-checks the ones kept so far.
func keepEncoding(t failer, prop string, c *codec, got, want []byte, cc codecCase) {
	for _, k := range keptEncodings {
		if !bytes.Equal(k.got, k.want) {
			bad := k
			keptEncodings = nil
			violation(t, prop, bad.codec, prop+":"+bad.codec+":encoding-changed-after-later-encode", bad.cc,
				"%s: the bytes MarshalBinary returned (%d octets, then equal to the RFC layout) no longer are what they were after later values were encoded (first difference at %d)", bad.codec, len(bad.want), firstDiff(bad.got, bad.want))
		}
	}
	if len(got) >= 512 {
		if len(keptEncodings) >= 8 {
			keptEncodings = keptEncodings[1:]
		}
		keptEncodings = append(keptEncodings, keptEnc{c.name, got, append([]byte{}, want...), cc})
	}
}

// codecsConcurrently runs the round trip of every codec from 16 goroutines at once.
func codecsConcurrently(t *testing.T, prop string, iters int) {
	const workers = 64
	type job struct {
		c     *codec
		m     interface{}
		wire  []byte
		cc    codecCase
		label string
	}
	var jobs [workers][]job
	for i := range codecs {
		c := &codecs[i]
		gen := rapid.Custom(func(rt *rapid.T) interface{} { return c.gen(rt) })
		for w := 0; w < workers; w++ {
			// values the encoder accepts, preferring big ones (many arguments, long fields)
			var best interface{}
			var bestWire []byte
			for s := 0; s < 40; s++ {
				m := gen.Example(1000*i + 40*w + s)
				wire, err := c.toLib(m).MarshalBinary()
				if err != nil || !bytes.Equal(wire, c.encode(m)) {
					continue
				}
				if best == nil || len(wire) > len(bestWire) {
					best, bestWire = m, wire
				}
			}
			if best != nil {
				jobs[w] = append(jobs[w], job{c, best, append([]byte{}, bestWire...), mkCodecCase(c, best), c.name})
			}
			// the argument-carrying bodies once more with a long argument list of this worker's own
			// (200 to 255 arguments of 2 to 41 octets): the longer a decode takes, the likelier an overlap
			var m interface{}
			args := make([]model.B, 200+(w*7)%56)
			for k := range args {
				a := make([]byte, 2+(k*3+w)%40)
				for x := range a {
					a[x] = byte('a' + (k+x+w)%26)
				}
				args[k] = a
			}
			switch c.name {
			case "AuthorRequest":
				m = model.AuthorRequest{Method: 6, Priv: 1, AType: 1, Service: 1, User: model.B("u"), Port: model.B("p"), RemAddr: model.B("r"), Args: args}
			case "AuthorReply":
				m = model.AuthorReply{Status: 1, ServerMsg: model.B("m"), Data: model.B("d"), Args: args}
			case "AcctRequest":
				m = model.AcctRequest{Flags: 2, Method: 6, Priv: 1, AType: 1, Service: 1, User: model.B("u"), Port: model.B("p"), RemAddr: model.B("r"), Args: args}
			}
			if m != nil {
				if wire, err := c.toLib(m).MarshalBinary(); err == nil && bytes.Equal(wire, c.encode(m)) {
					jobs[w] = append(jobs[w], job{c, m, wire, mkCodecCase(c, m), c.name})
				}
			}
		}
	}
	var mu sync.Mutex
	var failure *struct {
		j   job
		sig string
		msg string
	}
	fail := func(j job, sig, msg string) {
		mu.Lock()
		if failure == nil {
			failure = &struct {
				j   job
				sig string
				msg string
			}{j, sig, msg}
		}
		mu.Unlock()
	}
	failed := func() bool { mu.Lock(); defer mu.Unlock(); return failure != nil }
	var wg sync.WaitGroup
	for w := 0; w < workers; w++ {
		wg.Add(1)
		go func(w int) {
			defer wg.Done()
			for it := 0; it < iters && !failed(); it++ {
				for _, j := range jobs[w] {
					got, err := j.c.toLib(j.m).MarshalBinary()
					runtime.Gosched()
					if err != nil || !bytes.Equal(got, j.wire) {
						fail(j, "encode-differs-under-overlap", fmt.Sprintf("%s: encoding a value while other goroutines encode and decode theirs: err=%v, %d octets, first difference from the RFC layout at %d", j.label, err, len(got), firstDiff(got, j.wire)))
						return
					}
					dec := j.c.newLib()
					if p := catch(func() { err = dec.UnmarshalBinary(append([]byte{}, j.wire...)) }); p != nil {
						fail(j, "decode-panics-under-overlap", fmt.Sprintf("%s: UnmarshalBinary panics while other goroutines decode: %v", j.label, p))
						return
					}
					if err != nil {
						fail(j, "own-encoding-refused-under-overlap", fmt.Sprintf("%s: bytes the encoder produced are refused while other goroutines decode theirs: %v", j.label, err))
						return
					}
					runtime.Gosched()
					if back, exp := j.c.fromLib(dec), expectedDecode(j.c, j.m); !sameModel(back, exp) {
						fail(j, "roundtrip-differs-under-overlap", fmt.Sprintf("%s: decoding yields other field values while other goroutines decode theirs\n got =%s\n want=%s", j.label, js(back), js(exp)))
						return
					}
					if !bytes.Equal(got, j.wire) {
						fail(j, "encoding-changed-after-later-encode", fmt.Sprintf("%s: the bytes MarshalBinary returned changed while they were held", j.label))
						return
					}
				}
			}
		}(w)
	}
	wg.Wait()
	ev.Eval()
	ev.Class("codecs-from-64-goroutines-at-once")
	if failure != nil {
		violation(t, prop, failure.j.c.name, prop+":"+failure.j.c.name+":"+failure.sig, failure.j.cc, "%s", failure.msg)
	}
	for w := 0; w < workers; w++ {
		for _, j := range jobs[w] {
			ev.NonTrivial("overlap:"+j.label, j.cc)
			break
		}
	}
}

func TestC01EnumConcurrent(t *testing.T) { codecsConcurrently(t, "C01", 40) }
func TestC02EnumConcurrent(t *testing.T) { codecsConcurrently(t, "C02", 40) }
