package harness

import (
	"os"
	"path/filepath"
	"reflect"
	"regexp"
	"strings"
	"sync"

	"github.com/facebookincubator/tacquito/cmds/server/config"
	"verif/harness/cfggen"
	"verif/harness/ev"

	"pgregory.net/rapid"
)

// The configuration schema the generators know, and what the tree under test has beyond it.
//
// The generated configurations use the keys of the configuration schema as it is documented (cfggen).  A
// tree that has grown a key - a new field in one of the configuration structs, a new option read by an
// authenticator, accounter, secret provider or handler factory - has behaviour no generated document would
// ever switch on.  So the schema is read off the tree under test: the struct fields by reflection over
// config.ServerConfig, the option names from the string literals indexed into an options map in the
// sources of cmds/server.  Whatever is not in the lists below is drawn into generated documents with
// values of the field's type.  On the unchanged tree this finds the four comment fields (documentation text
// that the harness' model does not carry) and no option.  Only checks
// whose oracle does not depend on what a key means use this (a session compared with itself alone, replies
// counted, crashes, log contents, reload against fresh start).

var knownConfigFields = map[string][]string{
	"ServerConfig":  {"secrets", "users", "prefix_deny", "prefix_allow"},
	"SecretConfig":  {"name", "secret", "handler", "type", "options"},
	"Keychain":      {"group", "key"},
	"Handler":       {"type", "options"},
	"User":          {"name", "scopes", "groups", "services", "commands", "authenticator", "accounter"},
	"Group":         {"name", "services", "commands", "authenticator", "accounter"},
	"Service":       {"name", "match", "set_values", "is_optional"},
	"Value":         {"name", "values", "is_optional"},
	"Command":       {"name", "match", "action"},
	"Authenticator": {"type", "options"},
	"Accounter":     {"name", "type", "options"},
}

var knownOptionKeys = map[string]bool{"prefixes": true, "hosts": true, "hash": true, "group": true, "key": true,
	"destination": true, "switchAddr": true, "remAddr": true, "packetType": true}

type discoveredKey struct {
	Kind   string // as cfggen.ExtraKey.Kind
	Key    string
	GoKind string // string | int | bool | strings | option
}

var (
	discoverOnce sync.Once
	discovered   []discoveredKey
)

func repoDir() string {
	if d := os.Getenv("VERIF_REPO_DIR"); d != "" {
		return d
	}
	return "/repo"
}

func discoverSchema() []discoveredKey {
	discoverOnce.Do(func() {
		seen := map[reflect.Type]bool{}
		var walk func(t reflect.Type)
		walk = func(t reflect.Type) {
			for t.Kind() == reflect.Ptr || t.Kind() == reflect.Slice {
				t = t.Elem()
			}
			if t.Kind() != reflect.Struct || seen[t] {
				return
			}
			seen[t] = true
			known := map[string]bool{}
			for _, k := range knownConfigFields[t.Name()] {
				known[k] = true
			}
			for i := 0; i < t.NumField(); i++ {
				f := t.Field(i)
				tag := strings.Split(f.Tag.Get("yaml"), ",")[0]
				if tag == "" || tag == "-" || !f.IsExported() {
					continue
				}
				if !known[tag] && knownConfigFields[t.Name()] != nil {
					ft := f.Type
					for ft.Kind() == reflect.Ptr {
						ft = ft.Elem()
					}
					gk := ""
					switch ft.Kind() {
					case reflect.String:
						gk = "string"
					case reflect.Bool:
						gk = "bool"
					case reflect.Int, reflect.Int8, reflect.Int16, reflect.Int32, reflect.Int64, reflect.Uint, reflect.Uint8, reflect.Uint16, reflect.Uint32, reflect.Uint64:
						gk = "int"
					case reflect.Slice:
						if ft.Elem().Kind() == reflect.String {
							gk = "strings"
						}
					}
					if gk != "" {
						discovered = append(discovered, discoveredKey{Kind: t.Name(), Key: tag, GoKind: gk})
					}
				}
				walk(f.Type)
			}
		}
		walk(reflect.TypeOf(config.ServerConfig{}))
		// option names: string literals indexed into something called ...ptions in cmds/server
		re := regexp.MustCompile(`ptions\["([^"]+)"\]`)
		_ = filepath.Walk(filepath.Join(repoDir(), "cmds", "server"), func(path string, info os.FileInfo, err error) error {
			if err != nil || info.IsDir() || !strings.HasSuffix(path, ".go") || strings.HasSuffix(path, "_test.go") {
				return nil
			}
			src, err := os.ReadFile(path)
			if err != nil {
				return nil
			}
			for _, m := range re.FindAllSubmatch(src, -1) {
				k := string(m[1])
				if knownOptionKeys[k] {
					continue
				}
				kinds := []string{"Authenticator.options", "Accounter.options", "SecretConfig.options", "Handler.options"}
				switch {
				case strings.Contains(path, "/authenticators/"):
					kinds = kinds[:1]
				case strings.Contains(path, "/accounters/"):
					kinds = kinds[1:2]
				case strings.Contains(path, "/secret/"):
					kinds = kinds[2:3]
				case strings.Contains(path, "/handlers/"):
					kinds = kinds[3:]
				}
				for _, kind := range kinds {
					dup := false
					for _, d := range discovered {
						dup = dup || (d.Kind == kind && d.Key == k)
					}
					if !dup {
						discovered = append(discovered, discoveredKey{Kind: kind, Key: k, GoKind: "option"})
					}
				}
			}
			return nil
		})
	})
	return discovered
}

// drawExtraKeys writes keys the tree under test has beyond the known schema into the configuration, two
// times in three each, with a value of the field's type.  Without such keys it draws nothing.
func drawExtraKeys(t *rapid.T, c *cfggen.Config) {
	for _, d := range discoverSchema() {
		label := "extra_" + d.Kind + "_" + d.Key
		if rapid.IntRange(0, 2).Draw(t, label) == 0 {
			continue
		}
		var v interface{}
		switch d.GoKind {
		case "string":
			v = rapid.SampledFrom([]string{"x", "", "3", "see ticket 4711", "café — ask the noc", "grüß dich", strings.Repeat("m", 300), "%s%d", "two\nlines", " padded "}).Draw(t, label+"_value")
		case "int":
			v = rapid.SampledFrom([]int{2, 3, 5, 0, 1, -1, 1000000}).Draw(t, label+"_value")
		case "bool":
			v = rapid.Bool().Draw(t, label+"_value")
		case "strings":
			v = rapid.SampledFrom([][]string{{"a"}, {"a", "b"}, {""}, {"café"}, {}}).Draw(t, label+"_value")
		default: // option values are strings
			v = rapid.SampledFrom([]string{"2", "3", "5", "0", "1", "-1", "true", "false", "x", "", "café", "10s"}).Draw(t, label+"_value")
		}
		c.Extra = append(c.Extra, cfggen.ExtraKey{Kind: d.Kind, Key: d.Key, Value: v})
		ev.Class("config-key-beyond-the-known-schema:" + d.Kind + "." + d.Key)
	}
}

// Words the tree under test has beyond the unchanged tree: short string literals (names, keywords) found in
// the non-test sources of the tree the harness was built against that are not in testdata/known_literals.txt
// (the literals of the unchanged tree).  A change that gives a particular name or value a meaning ("DEFAULT",
// "any", "none") brings its own dictionary entry.  Checks use the words as user names next to their own
// pools.  On the unchanged tree there are none.
var (
	wordsOnce       sync.Once
	discoveredWords []string
)

func newWords() []string {
	wordsOnce.Do(func() {
		known := map[string]bool{}
		if b, err := os.ReadFile(filepath.Join("testdata", "known_literals.txt")); err == nil {
			for _, l := range strings.Split(string(b), "\n") {
				known[l] = true
			}
		} else {
			return // without the baseline nothing can be told apart
		}
		re := regexp.MustCompile(`"([A-Za-z0-9_.$~ -]{1,24})"`)
		seen := map[string]bool{}
		_ = filepath.Walk(repoDir(), func(path string, info os.FileInfo, err error) error {
			if err != nil {
				return nil
			}
			if info.IsDir() {
				if n := info.Name(); n == ".git" || n == "SEED" {
					return filepath.SkipDir
				}
				return nil
			}
			if !strings.HasSuffix(path, ".go") || strings.HasSuffix(path, "_test.go") {
				return nil
			}
			src, err := os.ReadFile(path)
			if err != nil {
				return nil
			}
			for _, m := range re.FindAllSubmatch(src, -1) {
				w := string(m[1])
				if !known[w] && !seen[w] && strings.TrimSpace(w) != "" && len(discoveredWords) < 12 {
					seen[w] = true
					discoveredWords = append(discoveredWords, w)
				}
			}
			return nil
		})
	})
	return discoveredWords
}
