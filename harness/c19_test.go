package harness

import (
	"testing"

	tq "github.com/facebookincubator/tacquito"
	"verif/harness/ev"
	"verif/harness/model"

	"pgregory.net/rapid"
)

// C19 — a body that is inconsistent with its own length fields under every layout of its packet type
// (the signature of a wrong key) never reaches a handler and is answered by one error packet of the
// matching type, then the connection closes; well-formed requests are never flagged.

type c19Case struct {
	ServerSecret model.B `json:"server_secret"`
	ClientSecret model.B `json:"client_secret"`
	Type         byte    `json:"type"`
	Minor        byte    `json:"minor"`
	Seq          byte    `json:"seq"`
	Flags        byte    `json:"flags"`
	Session      uint32  `json:"session"`
	// Mode "seen": Bytes is what the server must see after deobfuscation (the harness obfuscates with
	// the server's secret).  Mode "sent": Bytes is the client's cleartext, obfuscated with the client's secret.
	Mode  string  `json:"mode"`
	Bytes model.B `json:"bytes"`
	// Waiting: the packet continues a session that was opened just before on the same connection by a
	// well-formed packet under the right key and is waiting for its continuation (the handler registered
	// one); Seq is then at least 3
	Waiting bool `json:"waiting,omitempty"`
	// Behind: this many octets of the client's next packet (another session, same wrong key) arrive in the
	// same read as the packet, directly behind it (a client that opens two sessions in one write); applied
	// when the packet is a key mismatch: the one error packet is still owed
	Behind int `json:"behind,omitempty"`
}

// seen computes the bytes the server sees after removing its own pad.
func (c c19Case) wireAndSeen() (wire []byte, seen []byte) {
	h := model.Header{Version: 0xc0 | c.Minor, Type: c.Type, Seq: c.Seq, Flags: c.Flags, Session: c.Session, Length: uint32(len(c.Bytes))}
	if c.Flags&model.FlagUnencrypted != 0 {
		return model.Frame(nil, h, c.Bytes), c.Bytes
	}
	if c.Mode == "seen" {
		return model.Frame(c.ServerSecret, h, c.Bytes), c.Bytes
	}
	wire = model.Frame(c.ClientSecret, h, c.Bytes)
	return wire, model.Obfuscate(c.ServerSecret, h, wire[12:])
}

func genRequestBody(t *rapid.T, typ byte) []byte {
	switch typ {
	case model.TypeAuthen:
		if rapid.Bool().Draw(t, "continue") {
			return genAuthenContinue(t).Encode()
		}
		return genAuthenStart(t).Encode()
	case model.TypeAuthor:
		return genAuthorRequest(t).Encode()
	}
	return genAcctRequest(t).Encode()
}

func genMismatchBody(t *rapid.T, typ byte) []byte {
	n := rapid.IntRange(9, 120).Draw(t, "mlen")
	out := rapid.SliceOfN(rapid.Byte(), n, n).Draw(t, "mbytes")
	hi := func() byte { return rapid.ByteRange(0x80, 0xff).Draw(t, "hi") }
	switch typ {
	case model.TypeAuthen:
		out[0], out[2], out[4] = hi(), hi(), hi() // continue, reply, start over-declare
	case model.TypeAuthor:
		out[1], out[7] = 0, 0 // no argument length octets to read
		out[2], out[4] = hi(), hi()
	case model.TypeAcct:
		out[8] = 0
		out[0], out[5] = hi(), hi()
	}
	return out
}

// genWrapBody builds a body whose announced lengths exceed what is present by exactly 256 (one-octet
// lengths) or 65536 (two-octet lengths): consistent only for an implementation that adds the lengths up
// in a type too narrow for the sum.
func genWrapBody(t *rapid.T, typ byte) []byte {
	k := rapid.IntRange(0, 40).Draw(t, "wrap_present")
	fill := rapid.SliceOfN(rapid.Byte(), k, k).Draw(t, "wrap_fill")
	var fixed []byte
	two := func(n int) []byte { return []byte{byte(n >> 8), byte(n)} }
	switch typ {
	case model.TypeAuthen:
		switch rapid.IntRange(0, 2).Draw(t, "wrap_layout") {
		case 0: // CONTINUE: user_msg_len(2) data_len(2) flags
			fixed = append(append(two(0xffff), two(k+1)...), 0)
		case 1: // REPLY: status flags server_msg_len(2) data_len(2)
			fixed = append(append([]byte{1, 0}, two(0xffff)...), two(k+1)...)
		default: // START: action priv type service user_len port_len rem_addr_len data_len
			fixed = []byte{1, 1, 1, 1, 255, 1, 0, byte(k)}
		}
	case model.TypeAuthor:
		if rapid.Bool().Draw(t, "wrap_reply") { // REPLY: status arg_cnt server_msg_len(2) data_len(2)
			fixed = append(append([]byte{1, 0}, two(0xffff)...), two(k+1)...)
		} else { // REQUEST: method priv type service user_len port_len rem_addr_len arg_cnt
			fixed = []byte{6, 1, 1, 1, 255, 1, byte(k), 0}
		}
	default:
		if rapid.Bool().Draw(t, "wrap_reply") { // REPLY: server_msg_len(2) data_len(2) status
			fixed = append(append(two(0xffff), two(k+1)...), 1)
		} else { // REQUEST: flags method priv type service user_len port_len rem_addr_len arg_cnt
			fixed = []byte{2, 6, 1, 1, 1, 255, 1, byte(k), 0}
		}
	}
	return append(fixed, fill...)
}

func genC19(t *rapid.T) c19Case {
	c := c19Case{
		ServerSecret: genSecret(t, "server_secret"),
		Type:         rapid.SampledFrom([]byte{1, 2, 3}).Draw(t, "type"),
		Minor:        rapid.SampledFrom([]byte{0, 1}).Draw(t, "minor"),
		Seq:          byte(2*rapid.OneOf(rapid.IntRange(0, 127), rapid.SampledFrom([]int{0, 1, 126, 127})).Draw(t, "seqhalf") + 1), // 1..255
		Flags:        rapid.SampledFrom([]byte{0, 0, 0, 4, 1, 5}).Draw(t, "flags"),
		Session:      genSession(t),
	}
	c.Behind = rapid.SampledFrom([]int{0, 0, 0, 1, 12, 30, 200}).Draw(t, "behind")
	c.ClientSecret = c.ServerSecret
	switch rapid.IntRange(0, 7).Draw(t, "kind") {
	case 7: // the server sees lengths that only add up in too narrow an integer type
		c.Mode, c.Bytes = "seen", genWrapBody(t, c.Type)
	case 0: // right key, well-formed
		c.Mode, c.Bytes = "sent", genRequestBody(t, c.Type)
	case 1, 2: // wrong key, well-formed cleartext
		c.Mode, c.Bytes = "sent", genRequestBody(t, c.Type)
		c.ClientSecret = genSecret(t, "client_secret")
	case 3, 4: // the server sees a constructed mismatch
		c.Mode, c.Bytes = "seen", genMismatchBody(t, c.Type)
	case 5: // the server sees arbitrary bytes
		c.Mode, c.Bytes = "seen", rapid.SliceOfN(rapid.Byte(), 0, 48).Draw(t, "raw")
	default: // the server sees a well-formed request followed/preceded by noise
		c.Mode = "seen"
		c.Bytes = genRequestBody(t, c.Type)
		if rapid.Bool().Draw(t, "trail") {
			c.Bytes = append(c.Bytes, rapid.SliceOfN(rapid.Byte(), 1, 9).Draw(t, "noise")...)
		} else if len(c.Bytes) > 1 {
			c.Bytes = c.Bytes[:rapid.IntRange(1, len(c.Bytes)-1).Draw(t, "cut")]
		}
	}
	if len(c.Bytes) > 65536 {
		c.Bytes = c.Bytes[:65536]
	}
	if c.Seq >= 3 && rapid.IntRange(0, 2).Draw(t, "continues_waiting_session") == 0 {
		c.Waiting = true
	}
	return c
}

func errorReplyStatus(typ byte, clear []byte) (status byte, ok bool) {
	switch typ {
	case model.TypeAuthen:
		r, ok, exact := model.DecodeAuthenReply(clear)
		return r.Status, ok && exact
	case model.TypeAuthor:
		r, ok, exact := model.DecodeAuthorReply(clear)
		return r.Status, ok && exact
	}
	r, ok, exact := model.DecodeAcctReply(clear)
	return r.Status, ok && exact
}

var errorStatus = map[byte]byte{model.TypeAuthen: 7, model.TypeAuthor: 0x11, model.TypeAcct: 2}

func runC19(t failer, c c19Case) model.Class {
	ev.Eval()
	journal("C19", c)
	fail := func(sig, format string, args ...interface{}) {
		violation(t, "C19", "badsecret", "C19:"+sig, c, format, args...)
	}
	wire, seen := c.wireAndSeen()
	class := model.Classify(c.Type, seen)
	clearFlag := c.Flags&model.FlagUnencrypted != 0
	rh := &recHandler{}
	srv := startServer(nopLogger{}, staticSP{secret: nonNil(c.ServerSecret), handler: rh})
	conn, err := srv.connect(nil)
	if err != nil {
		t.Fatalf("%v", err)
	}
	d := &connDriver{c: conn}
	warm := 0
	if c.Waiting {
		ev.Class("continues-a-waiting-session")
		rh.reply = func(resp tq.Response, req tq.Request) {
			if len(rh.requests()) == 1 {
				resp.Next(rh)
				_, _ = resp.Reply(rawED{[]byte{5, 0, 0, 0, 0, 0}})
			}
		}
		wh := model.Header{Version: 0xc0 | c.Minor, Type: c.Type, Seq: c.Seq - 2, Session: c.Session}
		if _, _, wclosed, err := d.send(model.Frame(c.ServerSecret, wh, consistentBody(c.Type, 8, []byte{1}))); err != nil || wclosed {
			t.Fatalf("HARNESS-BUG: the opening packet of the waiting session was refused (closed=%v err=%v)", wclosed, err)
		}
		warm = 1
	}
	if c.Behind > 0 && class == model.Mismatch && !clearFlag {
		ev.Class("mismatch-with-more-input-behind-it")
		next := model.Frame(c.ClientSecret, model.Header{Version: 0xc0, Type: c.Type, Seq: 1, Session: c.Session ^ 0x0f0f}, consistentBody(c.Type, 40, []byte{9}))
		if c.Behind < len(next) {
			next = next[:c.Behind]
		}
		wire = append(append([]byte{}, wire...), next...)
	}
	pkts, rest, closed, err := d.send(wire)
	if err != nil {
		t.Fatalf("%v", err)
	}
	if e := srv.stop(); e != nil {
		t.Fatalf("%v", e)
	}
	calls := len(rh.requests()) - warm
	if len(pkts) > 1 || len(rest) != 0 {
		fail("too-many-packets", "%d packets (+%d stray bytes) written for one request", len(pkts), len(rest))
	}
	switch {
	case clearFlag || class == model.WellFormed:
		if calls != 1 {
			what := "well-formed under the connection's secret"
			if clearFlag {
				what = "sent in the clear"
			}
			fail("false-positive", "request %s was not passed to the handler (handler calls %d, packets written %d, closed %v)", what, calls, len(pkts), closed)
		}
		if closed || len(pkts) != 0 {
			fail("false-positive", "request treated as key mismatch: %d packets written, closed=%v (the recording handler writes nothing)", len(pkts), closed)
		}
	case class == model.Mismatch:
		if calls != 0 {
			fail("mismatch-reached-handler", "body inconsistent under every layout of type %d reached the handler", c.Type)
		}
		if len(pkts) != 1 {
			fail("mismatch-not-signalled", "expected exactly one error packet, %d written (closed=%v)", len(pkts), closed)
		}
		if !closed {
			fail("mismatch-not-closed", "connection left open after a key mismatch")
		}
		p := pkts[0]
		if p.H.Type != c.Type {
			fail("error-packet-type", "error packet has type %d, request had %d", p.H.Type, c.Type)
		}
		st, ok := errorReplyStatus(c.Type, p.Clear(c.ServerSecret))
		if !ok || st != errorStatus[c.Type] {
			fail("error-packet-body", "error packet does not decode (under the server's secret) to the type's reply layout with ERROR status: ok=%v status=%#x", ok, st)
		}
	default: // GREY: only "at most one packet, no crash"
	}
	return class
}

func classifyC19(c c19Case, class model.Class) {
	name := map[model.Class]string{model.Grey: "GREY", model.Mismatch: "MISMATCH", model.WellFormed: "WELLFORMED"}[class]
	if c.Flags&model.FlagUnencrypted != 0 {
		name = "CLEAR+" + name
	}
	ev.Class(name)
	ev.Class("mode:" + c.Mode)
	differ := string(c.ClientSecret) != string(c.ServerSecret)
	if differ {
		ev.Class("secrets-differ")
	}
	if (class == model.Mismatch && len(c.Bytes) >= 9 && c.Flags&model.FlagUnencrypted == 0) ||
		(class == model.WellFormed) || (c.Flags&model.FlagUnencrypted != 0 && differ) {
		ev.NonTrivial(name, c)
	}
}

func TestC19(t *testing.T) {
	rapid.Check(t, func(rt *rapid.T) {
		c := genC19(rt)
		class := runC19(rt, c)
		classifyC19(c, class)
	})
}

// TestC19Enum: the canonical requests of the repository's own tests, under the right key, under 200
// wrong keys, and in the clear.
func TestC19Enum(t *testing.T) {
	bodies := map[byte][][]byte{
		1: {model.AuthenStart{Action: 1, Priv: 1, AType: 1, Service: 1, Port: b("tty0"), RemAddr: b("foo")}.Encode(),
			model.AuthenStart{Action: 1, Priv: 1, AType: 2, Service: 1, User: b("mr_uses_group"), Port: b("tty0"), RemAddr: b("foo"), Data: b("password")}.Encode(),
			model.AuthenContinue{UserMsg: b("password")}.Encode(), model.AuthenContinue{Flags: 1}.Encode()},
		2: {model.AuthorRequest{Method: 6, Priv: 1, AType: 1, Service: 1, User: b("mr_uses_group"), Port: b("tty0"), RemAddr: b("foo"),
			Args: []model.B{b("service=shell"), b("cmd=configure"), b("cmd-arg=terminal")}}.Encode(),
			model.AuthorRequest{Method: 6, Priv: 1, AType: 1, Service: 1, User: b("u")}.Encode()},
		3: {model.AcctRequest{Flags: 2, Method: 6, Priv: 1, AType: 1, Service: 1, User: b("mr_uses_group"), Port: b("tty0"), RemAddr: b("foo"),
			Args: []model.B{b("task_id=1"), b("service=shell")}}.Encode()},
	}
	for typ, bs := range bodies {
		for _, body := range bs {
			for i := 0; i < 200; i++ {
				c := c19Case{ServerSecret: b("fooman"), ClientSecret: b("fooman"), Type: typ, Seq: 1, Session: uint32(i) * 2654435761, Mode: "sent", Bytes: body}
				switch {
				case i == 0:
				case i == 1:
					c.Flags = 1
					c.ClientSecret = b("other")
				default:
					c.ClientSecret = []byte{byte(i), byte(i >> 3), 'x'}
				}
				classifyC19(c, runC19(t, c))
			}
		}
	}
}

func TestC19Regress(t *testing.T) {
	for _, s := range loadSaved(t, "C19") {
		var c c19Case
		mustUnmarshal(t, s, &c)
		runC19(t, c)
	}
}

var _ tq.Handler
