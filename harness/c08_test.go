package harness

import (
	"fmt"
	"os"
	"sync"
	"testing"
	"time"

	tq "github.com/facebookincubator/tacquito"
	"verif/harness/ev"
	"verif/harness/model"

	"pgregory.net/rapid"
)

// C08 — sequence numbers enforced: odd, strictly increasing per session, never reused; follow-ups go
// only to the continuation registered by the same session; finished sessions leave nothing behind.

type c08Step struct {
	Session uint32 `json:"session"`
	Seq     byte   `json:"seq"`
	Type    byte   `json:"type"`
	// what the handler does if it is invoked for this packet
	Reply bool `json:"reply"`
	Cont  bool `json:"cont"` // register a continuation
	// Status: 0 = the reply is six zero octets; otherwise the reply is built with the library's reply type
	// for the packet type and carries this status (GETDATA/GETUSER/GETPASS with a continuation, final
	// statuses without one)
	Status byte `json:"status,omitempty"`
	// Replies > 1: the handler sends this many replies to the one request (a banner, then the prompt);
	// each takes the next sequence number, and all of them count as sent
	Replies int `json:"replies,omitempty"`
	// PauseMs: real time that passes before this packet is sent (the scripted connection has no clock of
	// its own, so nothing but the server's own idea of time can make a difference)
	PauseMs int `json:"pause_ms,omitempty"`
}

type c08Case struct {
	Steps []c08Step `json:"steps"`
}

// reference model of the session table
type c08Sess struct {
	last int // highest sequence number received or sent in this session
	cont int // id of the registered continuation
}

type c08Model struct {
	sess   map[uint32]*c08Sess
	closed bool
	nextID int
}

// step returns whether the packet is dispatched and to which handler tag.
func (m *c08Model) step(s c08Step) (dispatch bool, tag string) {
	if m.closed {
		return false, ""
	}
	st, known := m.sess[s.Session]
	if s.Seq%2 == 0 || (known && int(s.Seq) <= st.last) {
		m.closed = true
		return false, ""
	}
	tag = "INIT"
	if known {
		tag = fmt.Sprintf("CONT%d", st.cont)
	}
	last := int(s.Seq)
	if s.Reply && s.Seq < 255 {
		last = int(s.Seq) + 1
		if s.Replies > 1 {
			last = int(s.Seq) + s.Replies
		}
	}
	if s.Cont {
		m.nextID++
		m.sess[s.Session] = &c08Sess{last: last, cont: m.nextID}
	} else {
		delete(m.sess, s.Session)
	}
	return true, tag
}

func genC08(t *rapid.T) c08Case {
	m := &c08Model{sess: map[uint32]*c08Sess{}}
	var c c08Case
	n := rapid.IntRange(1, 24).Draw(t, "nsteps")
	pool := []uint32{1, 2, 0xfffffffe}
	for i := 0; i < n && !m.closed; i++ {
		s := c08Step{
			Session: rapid.SampledFrom(pool).Draw(t, "session"),
			Type:    rapid.SampledFrom([]byte{1, 2, 3}).Draw(t, "type"),
			Reply:   rapid.IntRange(0, 9).Draw(t, "reply") != 0,
			Cont:    rapid.IntRange(0, 3).Draw(t, "cont") != 0,
		}
		switch {
		case s.Cont && s.Type == 1:
			s.Status = rapid.SampledFrom([]byte{0, 3, 4, 5}).Draw(t, "status")
		case s.Cont && s.Type == 3:
			s.Status = rapid.SampledFrom([]byte{0, 1}).Draw(t, "status")
		case !s.Cont && s.Type == 1:
			s.Status = rapid.SampledFrom([]byte{0, 1, 2, 7}).Draw(t, "status")
		case !s.Cont && s.Type == 2:
			s.Status = rapid.SampledFrom([]byte{0, 1, 2, 0x10, 0x11}).Draw(t, "status")
		case !s.Cont && s.Type == 3:
			s.Status = rapid.SampledFrom([]byte{0, 1, 2}).Draw(t, "status")
		}
		last := 0
		if st, ok := m.sess[s.Session]; ok {
			last = st.last
		}
		var seq int
		switch rapid.IntRange(0, 15).Draw(t, "seqkind") {
		case 0:
			seq = last // replay of the last number (received or sent)
		case 1:
			seq = last - 1
		case 2:
			seq = last - 2
		case 3:
			seq = last + 2 // even when last is even... (last is even after a reply) -> even number
		case 4:
			seq = 1
		case 5:
			seq = rapid.SampledFrom([]int{253, 254, 255}).Draw(t, "hi")
		case 6:
			seq = rapid.IntRange(1, 255).Draw(t, "any")
		case 7:
			seq = last + 1 + 2*rapid.IntRange(1, 20).Draw(t, "jump") // a jump forward, odd after a reply
		default:
			// the well-behaved next number
			seq = last + 1
			if seq%2 == 0 {
				seq++
			}
		}
		if seq < 1 {
			seq = 1
		}
		if seq > 255 {
			seq = 255
		}
		s.Seq = byte(seq)
		if s.Reply && seq <= 249 && rapid.IntRange(0, 5).Draw(t, "several_replies") == 0 {
			s.Replies = rapid.IntRange(2, 3).Draw(t, "replies")
		}
		c.Steps = append(c.Steps, s)
		m.step(s)
	}
	return c
}

type c08Harness struct {
	mu     sync.Mutex
	calls  []string
	script c08Step
	nextID int
}

func (h *c08Harness) handler(tag string) tq.Handler {
	return tq.HandlerFunc(func(resp tq.Response, req tq.Request) {
		h.mu.Lock()
		h.calls = append(h.calls, tag)
		s := h.script
		var next tq.Handler
		if s.Cont {
			h.nextID++
			next = h.handler(fmt.Sprintf("CONT%d", h.nextID))
		}
		h.mu.Unlock()
		if next != nil {
			resp.Next(next)
		}
		if s.Reply {
			var reply tq.EncoderDecoder = rawED{[]byte{0, 0, 0, 0, 0, 0}}
			if s.Status != 0 {
				switch s.Type {
				case 1:
					reply = tq.NewAuthenReply(tq.SetAuthenReplyStatus(tq.AuthenStatus(s.Status)), tq.SetAuthenReplyServerMsg("m"))
				case 2:
					reply = tq.NewAuthorReply(tq.SetAuthorReplyStatus(tq.AuthorStatus(s.Status)), tq.SetAuthorReplyServerMsg("m"))
				default:
					reply = tq.NewAcctReply(tq.SetAcctReplyStatus(tq.AcctReplyStatus(s.Status)), tq.SetAcctReplyServerMsg("m"))
				}
			}
			_, _ = resp.Reply(reply) // at sequence number 255 there is no number left for a reply
			for k := 1; k < s.Replies; k++ {
				_, _ = resp.Reply(reply)
			}
		}
	})
}

func (h *c08Harness) take() []string {
	h.mu.Lock()
	defer h.mu.Unlock()
	c := h.calls
	h.calls = nil
	return c
}

func runC08(t failer, c c08Case) {
	ev.Eval()
	journal("C08", c)
	fail := func(i int, sig, format string, args ...interface{}) {
		violation(t, "C08", "sessions", "C08:"+sig, c, "step %d %+v: "+format, append([]interface{}{i, c.Steps[i]}, args...)...)
	}
	h := &c08Harness{}
	secret := []byte("k")
	srv := startServer(nopLogger{}, staticSP{secret: secret, handler: h.handler("INIT")})
	conn, err := srv.connect(nil)
	if err != nil {
		t.Fatalf("%v", err)
	}
	defer func() {
		if e := srv.stop(); e != nil {
			t.Fatalf("%v", e)
		}
	}()
	d := &connDriver{c: conn}
	m := &c08Model{sess: map[uint32]*c08Sess{}}
	for i, s := range c.Steps {
		wasClosed := m.closed
		dispatch, tag := m.step(s)
		h.mu.Lock()
		h.script = s
		h.mu.Unlock()
		wire := model.Frame(secret, model.Header{Version: 0xc0, Type: s.Type, Seq: s.Seq, Session: s.Session}, consistentBody(s.Type, 8, []byte{1}))
		if s.PauseMs > 0 {
			ev.Class("real-time-passes-while-sessions-wait")
			time.Sleep(time.Duration(s.PauseMs) * time.Millisecond)
		}
		_, _, closed, err := d.send(wire)
		if err != nil {
			t.Fatalf("%v", err)
		}
		calls := h.take()
		if wasClosed {
			if len(calls) != 0 {
				fail(i, "handler-after-close", "handler %v invoked although the connection had been terminated", calls)
			}
			continue
		}
		if dispatch {
			if len(calls) != 1 || calls[0] != tag {
				fail(i, "wrong-dispatch", "expected dispatch to %s, handlers invoked: %v (connection closed=%v)", tag, calls, closed)
			}
			if closed {
				fail(i, "closed-after-valid", "connection closed after a packet the rules accept")
			}
		} else {
			if len(calls) != 0 {
				fail(i, "invalid-seq-dispatched", "sequence number %d must be refused (session %d) but reached handler %v", s.Seq, s.Session, calls)
			}
			if !closed {
				fail(i, "not-closed-after-invalid", "connection still open after refused sequence number %d", s.Seq)
			}
		}
	}
}

func classifyC08(c c08Case) {
	m := &c08Model{sess: map[uint32]*c08Sess{}}
	nt := false
	for _, s := range c.Steps {
		st, known := m.sess[s.Session]
		switch {
		case s.Seq%2 == 0:
			ev.Class("even")
			nt = true
		case known && int(s.Seq) == st.last, known && int(s.Seq) == st.last-1:
			ev.Class("replay")
			nt = true
		case known && int(s.Seq) < st.last:
			ev.Class("decrease")
			nt = true
		case known && int(s.Seq) >= st.last+4:
			ev.Class("jump")
			nt = true
		case known:
			ev.Class("next")
		case !known:
			ev.Class("new-session")
		}
		if s.Seq == 255 {
			ev.Class("reaches-255")
			nt = true
		}
		if known && !s.Cont {
			ev.Class("finish")
		}
		m.step(s)
	}
	if m.closed {
		ev.Class("history-ends-in-termination")
	}
	if nt {
		ev.NonTrivial("c08", c)
	}
}

func TestC08(t *testing.T) {
	rapid.Check(t, func(rt *rapid.T) {
		c := genC08(rt)
		runC08(rt, c)
		classifyC08(c)
	})
}

// TestC08Enum: for every (first, second) pair of sequence numbers in one session with a continuation
// registered after the first: the second is accepted iff odd and greater than everything before.
func TestC08Enum(t *testing.T) {
	for first := 1; first <= 255; first += 2 {
		for _, reply := range []bool{true, false} {
			seconds := []int{1, 2, first - 2, first - 1, first, first + 1, first + 2, first + 3, first + 4, 253, 254, 255}
			for _, second := range seconds {
				if second < 1 || second > 255 {
					continue
				}
				c := c08Case{Steps: []c08Step{
					{Session: 5, Seq: byte(first), Type: 1, Reply: reply, Cont: true},
					{Session: 5, Seq: byte(second), Type: 1, Reply: true, Cont: false},
					{Session: 5, Seq: 1, Type: 1, Reply: true, Cont: false},
				}}
				runC08(t, c)
				classifyC08(c)
			}
		}
	}
}

// TestC08EnumSlowSession: sessions wait for their continuation while real time passes (16.5 s in quick -
// longer than the read deadline the server arms - and 65 s in thorough), other sessions come and go on the
// connection, then the waiting sessions are continued, or a used number is replayed in one of them.
func TestC08EnumSlowSession(t *testing.T) {
	pause := 16500
	if os.Getenv("VERIF_TIER") == "thorough" {
		pause = 65000
	}
	c := c08Case{Steps: []c08Step{
		{Session: 1, Seq: 1, Type: 1, Reply: true, Cont: true, Status: 4},
		{Session: 2, Seq: 1, Type: 1, Reply: true, Cont: true, Status: 5},
		{Session: 3, Seq: 1, Type: 2, Reply: true, Cont: false, Status: 1},
		{Session: 4, Seq: 1, Type: 2, Reply: true, Cont: false, Status: 1, PauseMs: pause / 2},
		{Session: 5, Seq: 1, Type: 3, Reply: true, Cont: false, Status: 1, PauseMs: pause / 2},
		{Session: 1, Seq: 3, Type: 1, Reply: true, Cont: true, Status: 5},
		{Session: 1, Seq: 5, Type: 1, Reply: true, Cont: false, Status: 1},
		{Session: 6, Seq: 1, Type: 1, Reply: true, Cont: false, Status: 2},
		{Session: 2, Seq: 1, Type: 1, Reply: true, Cont: false, Status: 1}, // replay in a session that has waited all along
		{Session: 2, Seq: 3, Type: 1, Reply: true, Cont: false, Status: 1},
	}}
	runC08(t, c)
	classifyC08(c)
}

func TestC08Regress(t *testing.T) {
	for _, s := range loadSaved(t, "C08") {
		var c c08Case
		mustUnmarshal(t, s, &c)
		runC08(t, c)
	}
}

// TestC08EnumScale: thousands of sessions left waiting for their continuation on one connection; then
// follow-ups for a sample of them (each must reach that session's own continuation), new sessions in
// between, and at the end the replay of a used number in a session that is still waiting.
func TestC08EnumScale(t *testing.T) {
	n := scaleN()
	var c c08Case
	for i := 0; i < n; i++ {
		c.Steps = append(c.Steps, c08Step{Session: uint32(0x100 + i), Seq: 1, Type: byte(1 + i%3), Reply: true, Cont: true})
	}
	sample := []int{0, 1, n / 2, n - 2, n - 1}
	for k := 4; 1<<k < n; k++ {
		sample = append(sample, 1<<k-1, 1<<k, 1<<k+1)
	}
	for j, i := range sample {
		// continue (and keep waiting), then finish; every third one skips ahead
		seq := byte(3 + 2*(j%3))
		c.Steps = append(c.Steps, c08Step{Session: uint32(0x100 + i), Seq: seq, Type: 1, Reply: true, Cont: true})
		c.Steps = append(c.Steps, c08Step{Session: uint32(0x100 + i), Seq: seq + 2, Type: 1, Reply: true, Cont: false})
		// the id is free again
		c.Steps = append(c.Steps, c08Step{Session: uint32(0x100 + i), Seq: 1, Type: 1, Reply: true, Cont: j%2 == 0})
	}
	c.Steps = append(c.Steps, c08Step{Session: uint32(0x100 + n/3), Seq: 1, Type: 1, Reply: true, Cont: false}) // replay
	c.Steps = append(c.Steps, c08Step{Session: uint32(0x100 + n/3), Seq: 3, Type: 1, Reply: true, Cont: false}) // after termination
	runC08(t, c)
	classifyC08(c)
	ev.Class(fmt.Sprintf("scale:%d-sessions-waiting-on-one-connection", n))
}
