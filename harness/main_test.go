package harness

import (
	"encoding/json"
	"fmt"
	"os"
	"path/filepath"
	"runtime"
	"sort"
	"strings"
	"testing"
	"time"

	"verif/harness/ev"
)

func TestMain(m *testing.M) {
	code := m.Run()
	ev.Write()
	os.Exit(code)
}

// failer is what *testing.T and *rapid.T have in common.
type failer interface {
	Fatalf(format string, args ...interface{})
	Helper()
}

// Saved is the on-disk form of a case: regression corpus entries, failing cases and replay files all
// share it.
type Saved struct {
	Property  string          `json:"property"`
	Kind      string          `json:"kind,omitempty"` // which sub-check of the property
	Signature string          `json:"signature,omitempty"`
	Message   string          `json:"message,omitempty"`
	Note      string          `json:"note,omitempty"`
	Case      json.RawMessage `json:"case"`
}

// violation records the failing case (so that the last one written is the shrunk one) and fails.
// The signature names the kind of violation; known findings are matched on it.
func violation(t failer, prop, kind, sig string, c interface{}, format string, args ...interface{}) {
	t.Helper()
	msg := fmt.Sprintf(format, args...)
	if out := os.Getenv("VERIF_FAIL_OUT"); out != "" {
		raw, _ := json.Marshal(c)
		b, _ := json.MarshalIndent(Saved{Property: prop, Kind: kind, Signature: sig, Message: msg, Case: raw}, "", " ")
		_ = os.WriteFile(out, b, 0o644)
	}
	t.Fatalf("VIOLATION-DETAIL property=%s kind=%s signature=%s: %s", prop, kind, sig, msg)
}

// lockedServerGoroutines returns the tacquito frames of goroutines that are waiting for a lock or a
// semaphore inside tacquito code in two samples a second apart (same goroutines, same places): with
// the harness idle nothing can release them.  "" if there is none.
func lockedServerGoroutines() string {
	sample := func() map[string]string {
		buf := make([]byte, 1<<20)
		buf = buf[:runtime.Stack(buf, true)]
		out := map[string]string{}
		for _, g := range strings.Split(string(buf), "\n\n") {
			nl := strings.IndexByte(g, '\n')
			if nl < 0 || !strings.Contains(g, "github.com/facebookincubator/tacquito") {
				continue
			}
			head := g[:nl]
			if !(strings.Contains(head, "Lock") || strings.Contains(head, "semacquire") || strings.Contains(head, "sync.Cond.Wait") || strings.Contains(head, "sync.WaitGroup.Wait")) {
				continue
			}
			if strings.Contains(g, "verif/harness/transport.(*Conn).Read") || strings.Contains(g, "transport.(*Listener).Accept") {
				continue // waiting for the harness
			}
			var fs []string
			for _, ln := range strings.Split(g, "\n") {
				if strings.HasPrefix(ln, "github.com/facebookincubator/tacquito") {
					if i := strings.LastIndex(ln, "("); i > 0 {
						ln = ln[:i]
					}
					fs = append(fs, ln)
					if len(fs) == 4 {
						break
					}
				}
			}
			id := strings.Fields(head)
			if len(id) >= 2 && len(fs) > 0 {
				out[id[1]] = head[strings.Index(head, "["):] + " " + strings.Join(fs, " < ")
			}
		}
		return out
	}
	a := sample()
	if len(a) == 0 {
		return ""
	}
	time.Sleep(time.Second)
	b := sample()
	var keep []string
	for id, f := range a {
		if b[id] == f && !strings.Contains(f, "WaitGroup") {
			keep = append(keep, f)
		}
	}
	sort.Strings(keep)
	return strings.Join(keep, "\n")
}

// deadlockVerdict is called where a wait on the scripted objects has run into the watchdog.  If a
// goroutine of the server is stuck on a lock inside tacquito code, that - not the timeout - is the
// verdict: the case journalled last is saved as the failing case.  Returns nil if nothing is stuck.
func deadlockVerdict(what string) error {
	frames := lockedServerGoroutines()
	if frames == "" {
		return nil
	}
	out := os.Getenv("VERIF_FAIL_OUT")
	prop, kind := "C00", "deadlock"
	if out != "" {
		if b, err := os.ReadFile(out + ".journal"); err == nil {
			var j Saved
			if json.Unmarshal(b, &j) == nil {
				prop = j.Property
				j.Kind, j.Signature = kind, prop+":server-goroutine-deadlocked"
				j.Message = fmt.Sprintf("%s, and a goroutine of the server is blocked on a lock inside tacquito that nothing can release:\n%s", what, frames)
				nb, _ := json.MarshalIndent(j, "", " ")
				_ = os.WriteFile(out, nb, 0o644)
			}
		}
	}
	return fmt.Errorf("VIOLATION-DETAIL property=%s kind=%s signature=%s:server-goroutine-deadlocked: %s; blocked in:\n%s", prop, kind, prop, what, frames)
}

func verifRoot() string {
	if r := os.Getenv("VERIF_ROOT"); r != "" {
		return r
	}
	return "/verif"
}

// loadSaved reads the regression corpus of a property, plus the replay file when one is given.
func loadSaved(t *testing.T, prop string) []Saved {
	var files []string
	if rf := os.Getenv("VERIF_REPLAY_FILE"); rf != "" {
		files = []string{rf}
	} else {
		files, _ = filepath.Glob(filepath.Join(verifRoot(), "corpus", prop, "*.json"))
		sort.Strings(files)
	}
	var out []Saved
	for _, f := range files {
		b, err := os.ReadFile(f)
		if err != nil {
			t.Fatalf("read %s: %v", f, err)
		}
		var s Saved
		if err := json.Unmarshal(b, &s); err != nil {
			t.Fatalf("parse %s: %v", f, err)
		}
		if s.Property != prop {
			continue
		}
		s.Note = strings.TrimSpace(s.Note + " [" + filepath.Base(f) + "]")
		out = append(out, s)
	}
	return out
}

// mustUnmarshal decodes a saved case into dst.
func mustUnmarshal(t *testing.T, s Saved, dst interface{}) {
	if err := json.Unmarshal(s.Case, dst); err != nil {
		t.Fatalf("saved case %s: %v", s.Note, err)
	}
}

// journal records the case about to run, so that if the process dies (a panic outside any handler)
// the driver still has a replayable case.
func journal(prop string, c interface{}) {
	out := os.Getenv("VERIF_FAIL_OUT")
	if out == "" {
		return
	}
	raw, _ := json.Marshal(c)
	b, _ := json.Marshal(Saved{Property: prop, Kind: "journal", Signature: prop + ":process-died", Message: "the test process died while running this case", Case: raw})
	_ = os.WriteFile(out+".journal", b, 0o644)
}
