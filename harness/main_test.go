package harness

import (
	"encoding/json"
	"fmt"
	"os"
	"path/filepath"
	"sort"
	"strings"
	"testing"

	"verif/harness/ev"
)

func TestMain(m *testing.M) {
	code := m.Run()
	ev.Write()
	os.Exit(code)
}

// failer is what *testing.T and *rapid.T have in common.
type failer interface {
	Fatalf(format string, args ...interface{})
	Helper()
}

// Saved is the on-disk form of a case: regression corpus entries, failing cases and replay files all
// share it.
type Saved struct {
	Property  string          `json:"property"`
	Kind      string          `json:"kind,omitempty"` // which sub-check of the property
	Signature string          `json:"signature,omitempty"`
	Message   string          `json:"message,omitempty"`
	Note      string          `json:"note,omitempty"`
	Case      json.RawMessage `json:"case"`
}

// violation records the failing case (so that the last one written is the shrunk one) and fails.
// The signature names the kind of violation; known findings are matched on it.
func violation(t failer, prop, kind, sig string, c interface{}, format string, args ...interface{}) {
	t.Helper()
	msg := fmt.Sprintf(format, args...)
	if out := os.Getenv("VERIF_FAIL_OUT"); out != "" {
		raw, _ := json.Marshal(c)
		b, _ := json.MarshalIndent(Saved{Property: prop, Kind: kind, Signature: sig, Message: msg, Case: raw}, "", " ")
		_ = os.WriteFile(out, b, 0o644)
	}
	t.Fatalf("VIOLATION-DETAIL property=%s kind=%s signature=%s: %s", prop, kind, sig, msg)
}

func verifRoot() string {
	if r := os.Getenv("VERIF_ROOT"); r != "" {
		return r
	}
	return "/verif"
}

// loadSaved reads the regression corpus of a property, plus the replay file when one is given.
func loadSaved(t *testing.T, prop string) []Saved {
	var files []string
	if rf := os.Getenv("VERIF_REPLAY_FILE"); rf != "" {
		files = []string{rf}
	} else {
		files, _ = filepath.Glob(filepath.Join(verifRoot(), "corpus", prop, "*.json"))
		sort.Strings(files)
	}
	var out []Saved
	for _, f := range files {
		b, err := os.ReadFile(f)
		if err != nil {
			t.Fatalf("read %s: %v", f, err)
		}
		var s Saved
		if err := json.Unmarshal(b, &s); err != nil {
			t.Fatalf("parse %s: %v", f, err)
		}
		if s.Property != prop {
			continue
		}
		s.Note = strings.TrimSpace(s.Note + " [" + filepath.Base(f) + "]")
		out = append(out, s)
	}
	return out
}

// mustUnmarshal decodes a saved case into dst.
func mustUnmarshal(t *testing.T, s Saved, dst interface{}) {
	if err := json.Unmarshal(s.Case, dst); err != nil {
		t.Fatalf("saved case %s: %v", s.Note, err)
	}
}

// journal records the case about to run, so that if the process dies (a panic outside any handler)
// the driver still has a replayable case.
func journal(prop string, c interface{}) {
	out := os.Getenv("VERIF_FAIL_OUT")
	if out == "" {
		return
	}
	raw, _ := json.Marshal(c)
	b, _ := json.Marshal(Saved{Property: prop, Kind: "journal", Signature: prop + ":process-died", Message: "the test process died while running this case", Case: raw})
	_ = os.WriteFile(out+".journal", b, 0o644)
}
