package harness

import (
	"context"
	"fmt"
	"net"
	"os"
	"runtime"
	"sort"
	"strings"
	"sync"
	"sync/atomic"
	"syscall"
	"testing"
	"time"

	tq "github.com/facebookincubator/tacquito"
	"verif/harness/cfggen"
	"verif/harness/ev"
	"verif/harness/model"
	"verif/harness/refsrv"
	"verif/harness/transport"

	"pgregory.net/rapid"
)

// C17 — shutdown waits for connections; a finite read deadline is armed before every read; idle or
// slow connections are reaped.  The harness owns the schedule (scripted listener, connections and
// handler); the oracle reads the stamped event log, never the clock.

type c17Op struct {
	Kind   string `json:"kind"`           // pkt | partial | eof | reset | badkey-trickle (Pieces: octets of the next request in the same read, Bytes: octets dribbled afterwards)
	Pieces int    `json:"pieces"`         // pkt: number of reads the packet is spread over (0 = one per byte)
	Bytes  int    `json:"bytes"`          // partial: how many bytes of a packet arrive before the stall
	Hold   bool   `json:"hold"`           // pkt: the handler blocks until the harness releases it
	Next   bool   `json:"next,omitempty"` // pkt: the handler registers a continuation, so the session is still open when the connection ends
}

type c17Conn struct {
	Ops []c17Op `json:"ops"`
}

type c17Case struct {
	Conns  []c17Conn `json:"conns"`
	Cancel string    `json:"cancel"` // before-accept | in-accept | parked | in-handler | end
	Target int       `json:"target"` // connection the cancel point refers to
	Procs  int       `json:"procs"`  // GOMAXPROCS (0 = leave)
	// Ref: the secret provider is the reference configuration loader, given the same context as
	// Serve (as cmds/server/main.go does), and the handlers are the reference handlers
	Ref bool `json:"ref,omitempty"`
	// CallerCloses: whoever cancels the context also closes the listener (to wake a blocked Accept), so
	// the server's own Close of the listener reports an error
	CallerCloses bool `json:"caller_closes,omitempty"`
	// HoldMs (cancel in-handler): the handler stays at work for this long, in real time, after the
	// cancellation (a slow backend); Serve may not return before it has finished.  The verdict is the order
	// of events, the duration only says how long Serve was given to lose patience
	HoldMs int `json:"hold_ms,omitempty"`
	// EmptySecret: the secret provider hands out an empty (not nil) shared secret, as the reference keychain
	// does for a configuration whose key is the empty string
	EmptySecret bool `json:"empty_secret,omitempty"`
}

func genC17(t *rapid.T) c17Case {
	c := c17Case{
		Cancel: rapid.SampledFrom([]string{"before-accept", "in-accept", "in-accept", "parked", "parked", "in-handler", "in-handler", "end"}).Draw(t, "cancel"),
		Procs:  rapid.SampledFrom([]int{0, 1, 2}).Draw(t, "procs"),
		Ref:    rapid.IntRange(0, 3).Draw(t, "ref_stack") == 0,
	}
	if c.Cancel == "in-handler" {
		c.HoldMs = rapid.SampledFrom([]int{0, 0, 0, 0, 0, 10}).Draw(t, "handler_works_on_ms")
	}
	c.CallerCloses = rapid.IntRange(0, 3).Draw(t, "caller_closes_listener") == 0
	c.EmptySecret = rapid.IntRange(0, 7).Draw(t, "empty_shared_secret") == 0
	n := rapid.IntRange(0, 5).Draw(t, "nconns")
	if c.Cancel == "in-accept" || c.Cancel == "in-handler" {
		if n == 0 {
			n = 1
		}
	}
	for i := 0; i < n; i++ {
		var cc c17Conn
		nops := rapid.IntRange(0, 4).Draw(t, "nops")
		for j := 0; j < nops; j++ {
			op := c17Op{Kind: rapid.SampledFrom([]string{"pkt", "pkt", "pkt", "pkt-straddle", "partial", "eof", "reset", "badkey-trickle"}).Draw(t, "kind")}
			switch op.Kind {
			case "pkt":
				op.Pieces = rapid.SampledFrom([]int{1, 1, 2, 3, 0}).Draw(t, "pieces")
				op.Next = rapid.IntRange(0, 2).Draw(t, "leaves_session_open") == 0
			case "partial":
				op.Bytes = rapid.IntRange(1, 19).Draw(t, "bytes")
			case "pkt-straddle":
				op.Bytes = rapid.IntRange(1, 19).Draw(t, "straddle")
			case "badkey-trickle":
				op.Bytes = rapid.IntRange(0, 6).Draw(t, "trickled")
				op.Pieces = rapid.SampledFrom([]int{0, 0, 5, 12, 40}).Draw(t, "behind_it")
			}
			cc.Ops = append(cc.Ops, op)
			if op.Kind != "pkt" && op.Kind != "pkt-straddle" {
				break // the connection is gone after a stall or EOF
			}
		}
		c.Conns = append(c.Conns, cc)
	}
	if n > 0 {
		c.Target = rapid.IntRange(0, n-1).Draw(t, "target")
	}
	if c.Cancel == "in-handler" {
		// make sure the target has a packet whose handler is held
		cc := &c.Conns[c.Target]
		idx := -1
		for j, op := range cc.Ops {
			if op.Kind == "pkt" {
				idx = j
				break
			}
		}
		if idx < 0 {
			cc.Ops = append([]c17Op{{Kind: "pkt", Pieces: 1}}, cc.Ops...)
			idx = 0
		}
		cc.Ops[idx].Hold = true
	}
	return c
}

type c17Handler struct {
	log     *transport.Log
	mu      sync.Mutex
	hold    map[int]chan struct{} // conn id -> release channel for the next held packet
	next    map[int]bool          // conn id -> the next packet's handler registers a continuation
	entered chan int
}

func connIDOf(req tq.Request) int {
	if v, ok := req.Context.Value(tq.ContextConnRemoteAddr).(string); ok {
		var a, b, c, d int
		if _, err := fmt.Sscanf(v, "%d.%d.%d.%d", &a, &b, &c, &d); err == nil {
			return c<<8 | d
		}
	}
	return -1
}

func (h *c17Handler) Handle(resp tq.Response, req tq.Request) {
	id := connIDOf(req)
	h.log.Add(transport.EvHandlerIn, id, 0, nil, "")
	h.mu.Lock()
	ch := h.hold[id]
	delete(h.hold, id)
	next := h.next[id]
	delete(h.next, id)
	h.mu.Unlock()
	if ch != nil {
		h.entered <- id
		<-ch
	}
	if next {
		resp.Next(h)
	}
	_, _ = resp.Reply(rawED{[]byte{0, 0, 0, 0, 0, 0}})
	h.log.Add(transport.EvHandlerOut, id, 0, nil, "")
}

func runC17(t failer, c c17Case) {
	ev.Eval()
	journal("C17", c)
	fail := func(sig, format string, args ...interface{}) {
		violation(t, "C17", "shutdown", "C17:"+sig, c, format, args...)
	}
	if c.Procs > 0 {
		defer runtime.GOMAXPROCS(runtime.GOMAXPROCS(c.Procs))
	}
	log := transport.NewLog()
	ln := transport.NewListener(log)
	h := &c17Handler{log: log, hold: map[int]chan struct{}{}, next: map[int]bool{}, entered: make(chan int, 16)}
	secret := []byte("k")
	if c.EmptySecret {
		ev.Class("empty-shared-secret")
		secret = []byte{}
	}
	ctx, cancelCtx := context.WithCancel(context.Background())
	cancelled := false
	cancel := func() {
		if !cancelled {
			cancelled = true
			log.Add(transport.EvCancel, -1, 0, nil, "")
			cancelCtx()
			if c.CallerCloses {
				ev.Class("listener-also-closed-by-the-caller")
				_ = ln.Close()
			}
		}
	}
	if c.Cancel == "before-accept" {
		cancel()
	}
	// waits on the scripted objects use a grace period; if one expires the case goes straight to the
	// teardown and the log oracle decides; only if that finds nothing is the case inconclusive
	const grace = 5 * time.Second
	undecided := ""
	var sp tq.SecretProvider = staticSP{secret: secret, handler: h}
	// every Loader leaves one parked goroutine behind: bound how many a process creates
	if c.Ref && atomic.AddInt64(&c17RefStacks, 1) <= 2000 {
		ev.Class("reference-stack-with-shared-context")
		cfg := cfggen.Config{Secrets: []cfggen.Secret{cfggen.NewSecret("s9", string(secret), "10.9.0.0/16")},
			Users: []cfggen.User{{Name: "alice", Scopes: []string{"s9"}, Authenticator: cfggen.BcryptAuth("pw-alpha")}}}
		st, err := refsrv.New(cfg.YAML(), refsrv.Options{Logger: refsrv.NopLogger{}, Ctx: ctx})
		if err != nil {
			t.Fatalf("HARNESS-BUG: %v", err)
		}
		defer st.Close()
		rec := &refsrv.Recorder{}
		idOf := func(cl *refsrv.Call) int {
			var a, b, cc, d int
			if _, err := fmt.Sscanf(cl.Conn, "%d.%d.%d.%d", &a, &b, &cc, &d); err == nil {
				return cc<<8 | d
			}
			return -1
		}
		rec.OnBegin = func(cl *refsrv.Call) {
			id := idOf(cl)
			log.Add(transport.EvHandlerIn, id, 0, nil, "")
			h.mu.Lock()
			ch := h.hold[id]
			delete(h.hold, id)
			h.mu.Unlock()
			if ch != nil {
				h.entered <- id
				<-ch
			}
		}
		rec.OnEnd = func(cl *refsrv.Call) { log.Add(transport.EvHandlerOut, idOf(cl), 0, nil, "") }
		sp = rec.SP(st.Loader)
	}
	srv := tq.NewServer(nopLogger{}, sp)
	done := make(chan struct{})
	go func() {
		_ = srv.Serve(ctx, ln)
		log.Add(transport.EvServeReturn, -1, 0, nil, "")
		close(done)
	}()
	conns := make([]*transport.Conn, len(c.Conns))
	accepted := make([]bool, len(c.Conns))
	for i := range c.Conns {
		id := i + 1
		conns[i] = transport.NewConn(id, log, &net.TCPAddr{IP: net.IPv4(10, 9, byte(id>>8), byte(id)), Port: 1000 + id})
	}
	if c.Cancel == "in-accept" {
		target := conns[c.Target]
		ln.BeforeReturn = func(nc net.Conn) {
			if nc == net.Conn(target) {
				cancel()
			}
		}
	}
	serveGone := func() bool {
		select {
		case <-done:
			return true
		default:
			return false
		}
	}
	// open the connections one after the other
	for i, conn := range conns {
		if cancelled {
			break
		}
		ln.Offer(conn)
		accepted[i] = true
		if !conn.AwaitQuiescentOrClosed(grace) {
			undecided = fmt.Sprintf("connection %d neither served nor closed", i)
			break
		}
	}
	// run the scripts
	pktNo := 0
scripts:
	for i, cc := range c.Conns {
		conn := conns[i]
		for _, op := range cc.Ops {
			if undecided != "" {
				break scripts
			}
			if cancelled || conn.Closed() {
				break
			}
			switch op.Kind {
			case "pkt":
				pktNo++
				wire := model.Frame(secret, model.Header{Version: 0xc0, Type: 1, Seq: 1, Session: uint32(pktNo)}, consistentBody(1, 8, []byte{2}))
				var chunks [][]byte
				if op.Pieces == 0 {
					for k := range wire {
						chunks = append(chunks, wire[k:k+1])
					}
				} else {
					step := (len(wire) + op.Pieces - 1) / op.Pieces
					for k := 0; k < len(wire); k += step {
						e := k + step
						if e > len(wire) {
							e = len(wire)
						}
						chunks = append(chunks, wire[k:e])
					}
				}
				if op.Next {
					ev.Class("session-left-awaiting-continuation")
					h.mu.Lock()
					h.next[conn.ID] = true
					h.mu.Unlock()
				}
				var release chan struct{}
				if op.Hold {
					release = make(chan struct{})
					h.mu.Lock()
					h.hold[conn.ID] = release
					h.mu.Unlock()
				}
				conn.Feed(chunks...)
				if op.Hold {
					select {
					case <-h.entered:
					case <-time.After(watchdog):
						t.Fatalf("HARNESS-BUG/INCONCLUSIVE: held handler never entered")
					}
					if c.Cancel == "in-handler" && i == c.Target {
						cancel()
						ln.Kick()
						if c.HoldMs > 0 {
							ev.Class("handler-at-work-long-after-cancellation")
							time.Sleep(time.Duration(c.HoldMs) * time.Millisecond)
							if serveGone() {
								fail("handler-outlives-serve", "Serve returned within %d ms of the cancellation while the handler of connection %d was still at work and its connection open", c.HoldMs, i)
							}
						}
					}
					close(release)
				}
				if !conn.AwaitQuiescentOrClosed(grace) {
					undecided = fmt.Sprintf("connection %d neither quiescent nor closed after a packet", i)
				}
			case "partial":
				wire := model.Frame(secret, model.Header{Version: 0xc0, Type: 1, Seq: 1, Session: 0x7000 + uint32(i)}, consistentBody(1, 8, []byte{3}))
				for k := 0; k < op.Bytes; k++ {
					conn.Feed(wire[k : k+1])
					if !conn.AwaitQuiescentOrClosed(grace) {
						undecided = fmt.Sprintf("slow connection %d wedged", i)
						break scripts
					}
				}
				if conn.Closed() {
					fail("closed-mid-packet-before-deadline", "connection %d closed in the middle of a packet although no deadline had expired", i)
				}
				conn.ExpireDeadline()
				if !conn.AwaitClosed(3 * time.Second) {
					if conn.UnarmedStall() {
						fail("read-without-deadline", "connection %d: a read stalled mid-packet with no finite read deadline armed; it would never be reaped", i)
					}
					// not closed (yet): the teardown below orders everything before Serve's return
					// and the log oracle decides
				}
			case "pkt-straddle":
				// two packets whose segmentation does not respect packet boundaries: the first arrives with
				// the first octets of the second behind it, the rest of the second follows.  Every read the
				// second one needs is preceded by its own read deadline (the log oracle checks)
				ev.Class("segment-ends-inside-the-next-packet")
				pktNo += 2
				w1 := model.Frame(secret, model.Header{Version: 0xc0, Type: 1, Seq: 1, Session: uint32(pktNo - 1)}, consistentBody(1, 8, []byte{2}))
				w2 := model.Frame(secret, model.Header{Version: 0xc0, Type: 1, Seq: 1, Session: uint32(pktNo)}, consistentBody(1, 8, []byte{2}))
				conn.Feed(append(append([]byte{}, w1...), w2[:op.Bytes]...))
				if !conn.AwaitQuiescentOrClosed(grace) {
					undecided = fmt.Sprintf("connection %d neither quiescent nor closed after a packet", i)
					break scripts
				}
				conn.Feed(w2[op.Bytes:])
				if !conn.AwaitQuiescentOrClosed(grace) {
					undecided = fmt.Sprintf("connection %d neither quiescent nor closed after a packet", i)
				}
			case "badkey-trickle":
				// a request under the wrong key, with the beginning of the next request already behind it in
				// the same read; then the client dribbles single octets.  The server answers the first and
				// closes; if it goes on reading instead, the log oracle judges how it arms its deadlines
				ev.Class("key-mismatch-with-more-behind-it-then-a-trickle")
				wire := model.Frame(secret, model.Header{Version: 0xc0, Type: 1, Seq: 1, Session: 0x7100 + uint32(i)}, []byte{0xff, 0xff, 0xff, 0xff, 0xff, 0xff, 0xff, 0xff, 0xff})
				next := model.Frame(secret, model.Header{Version: 0xc0, Type: 1, Seq: 1, Session: 0x7200 + uint32(i)}, consistentBody(1, 40, []byte{4}))
				conn.Feed(append(append([]byte{}, wire...), next[:op.Pieces]...))
				if !conn.AwaitQuiescentOrClosed(grace) {
					undecided = fmt.Sprintf("connection %d neither quiescent nor closed after a key mismatch", i)
					break scripts
				}
				for k := 0; k < op.Bytes && !conn.Closed(); k++ {
					conn.Feed(next[op.Pieces+k : op.Pieces+k+1])
					if !conn.AwaitQuiescentOrClosed(grace) {
						undecided = fmt.Sprintf("connection %d wedged while draining", i)
						break scripts
					}
				}
			case "eof":
				conn.FeedEOF()
				conn.AwaitClosed(3 * time.Second) // if it stays open the log oracle reports it after teardown
			case "reset":
				ev.Class("read-fails-with-connection-reset")
				conn.FeedError(syscall.ECONNRESET)
				conn.AwaitClosed(3 * time.Second)
			}
		}
	}
	if c.Cancel == "parked" {
		cancel()
	}
	// teardown: cancel, let Accept's deadline expire, let every parked read's deadline expire
	cancel()
	ln.Kick()
	for i, conn := range conns {
		if accepted[i] && !conn.Closed() {
			conn.ExpireDeadline()
		}
	}
	select {
	case <-done:
	case <-time.After(10 * time.Second):
		for i, conn := range conns {
			if accepted[i] && conn.UnarmedStall() {
				fail("read-without-deadline", "connection %d: read blocked with no read deadline armed, Serve cannot return", i)
			}
		}
		// Every input the server can wait for is owned by the harness and has been delivered (context
		// cancelled, Accept timed out, every parked read timed out).  If no goroutine of the server is
		// parked in the harness' Read or Accept, and the picture does not change, nothing can ever
		// wake Serve: that is a hang, decided from the goroutines' state, not from the clock.
		waiting1, frames1 := serverGoroutines()
		time.Sleep(time.Second)
		waiting2, frames2 := serverGoroutines()
		select {
		case <-done:
		default:
			if !waiting1 && !waiting2 && frames1 == frames2 {
				fail("serve-never-returns", "Serve has not returned after cancellation although Accept and every read have timed out, and no server goroutine is waiting for the harness; blocked in:\n%s", frames1)
			}
			t.Fatalf("HARNESS-BUG/INCONCLUSIVE: Serve did not return within 10 s after cancellation (server goroutines waiting for the harness: %v)\n%s", waiting1 || waiting2, frames1)
		}
	}
	_ = serveGone
	// ---- oracles over the event log ----
	events := log.Events()
	var serveReturn, lnClose int64 = -1, -1
	for _, e := range events {
		switch e.Kind {
		case transport.EvServeReturn:
			serveReturn = e.Stamp
		case transport.EvLnClose:
			if lnClose < 0 {
				lnClose = e.Stamp
			}
		}
	}
	if lnClose < 0 || lnClose > serveReturn {
		fail("listener-not-closed", "Serve returned without having closed the listener first")
	}
	type cs struct {
		accepted, closed   int64
		armsSinceBoundary  int
		readsSinceBoundary int
		armedSinceBoundary bool
		handlerOpen        int
	}
	st := map[int]*cs{}
	get := func(id int) *cs {
		if st[id] == nil {
			st[id] = &cs{accepted: -1, closed: -1}
		}
		return st[id]
	}
	for _, e := range events {
		if e.Conn < 0 {
			continue
		}
		s := get(e.Conn)
		late := serveReturn >= 0 && e.Stamp > serveReturn
		switch e.Kind {
		case transport.EvAccept:
			s.accepted = e.Stamp
		case transport.EvClose:
			if s.closed < 0 {
				s.closed = e.Stamp
			}
		case transport.EvSetDeadline:
			if e.Info != "r zero" && e.Info != "rw zero" {
				s.armsSinceBoundary++
				s.armedSinceBoundary = true
			} else {
				s.armedSinceBoundary = false
			}
		case transport.EvReadBegin:
			if late {
				fail("activity-after-serve-return", "connection %d: Read after Serve returned", e.Conn)
			}
			if !s.armedSinceBoundary {
				fail("read-without-deadline", "connection %d: Read (stamp %d) not preceded by a finite read deadline since the last packet", e.Conn, e.Stamp)
			}
			s.readsSinceBoundary++
			if s.armsSinceBoundary >= 3 && s.readsSinceBoundary >= 3 {
				fail("deadline-rearmed-mid-packet", "connection %d: the read deadline was armed %d times within one packet (%d reads): a slow sender is never reaped", e.Conn, s.armsSinceBoundary, s.readsSinceBoundary)
			}
		case transport.EvWrite:
			if late {
				fail("activity-after-serve-return", "connection %d: Write after Serve returned", e.Conn)
			}
		case transport.EvHandlerIn:
			if late {
				fail("activity-after-serve-return", "connection %d: handler started after Serve returned", e.Conn)
			}
			s.handlerOpen++
		case transport.EvHandlerOut:
			if late {
				fail("handler-outlives-serve", "connection %d: handler still running when Serve returned", e.Conn)
			}
			s.handlerOpen--
			s.armsSinceBoundary, s.readsSinceBoundary, s.armedSinceBoundary = 0, 0, false
		}
	}
	for id, s := range st {
		if s.accepted < 0 {
			continue
		}
		if s.closed < 0 || s.closed > serveReturn {
			fail("connection-open-after-serve-return", "connection %d was accepted but not closed before Serve returned (closed stamp %d, serve-return %d)", id, s.closed, serveReturn)
		}
		if s.handlerOpen != 0 {
			fail("handler-outlives-serve", "connection %d: a handler had not finished when Serve returned", id)
		}
	}
	if undecided != "" {
		t.Fatalf("HARNESS-BUG/INCONCLUSIVE: %s, and the event log shows no violation", undecided)
	}
}

func (c c17Case) nontrivial() bool {
	if len(c.Conns) > 0 && (c.Cancel == "in-accept" || c.Cancel == "parked" || c.Cancel == "in-handler") {
		return true
	}
	for _, cc := range c.Conns {
		for _, op := range cc.Ops {
			if op.Kind == "partial" {
				return true
			}
		}
	}
	return false
}

func classifyC17(c c17Case) {
	ev.Class("cancel:" + c.Cancel)
	ev.Class(fmt.Sprintf("conns:%d", len(c.Conns)))
	for _, cc := range c.Conns {
		for _, op := range cc.Ops {
			ev.Class("op:" + op.Kind)
			if op.Kind == "pkt" && op.Pieces == 0 {
				ev.Class("op:pkt-one-byte-per-read")
			}
		}
	}
	if c.nontrivial() {
		ev.NonTrivial(c.Cancel, c)
	}
}

func TestC17(t *testing.T) {
	rapid.Check(t, func(rt *rapid.T) {
		c := genC17(rt)
		runC17(rt, c)
		classifyC17(c)
	})
}

// TestC17Enum: the schedule "cancel inside Accept just before it hands out the connection", 200 times
// at GOMAXPROCS 1 and default, and each cancel point with 3 open connections.
func TestC17Enum(t *testing.T) {
	for _, procs := range []int{1, 0} {
		for i := 0; i < 200; i++ {
			c := c17Case{Conns: []c17Conn{{Ops: []c17Op{{Kind: "pkt", Pieces: 1}}}}, Cancel: "in-accept", Target: 0, Procs: procs}
			runC17(t, c)
			classifyC17(c)
		}
	}
	three := []c17Conn{{Ops: []c17Op{{Kind: "pkt", Pieces: 0}}}, {Ops: []c17Op{{Kind: "pkt", Pieces: 2, Hold: true}, {Kind: "partial", Bytes: 13}}}, {}}
	for _, cancel := range []string{"before-accept", "in-accept", "parked", "in-handler", "end"} {
		for target := 0; target < 3; target++ {
			cs := make([]c17Conn, 3)
			copy(cs, three)
			c := c17Case{Conns: cs, Cancel: cancel, Target: 1}
			if cancel == "in-accept" {
				c.Target = target
			}
			runC17(t, c)
			classifyC17(c)
		}
	}
}

// TestC17EnumSlowHandler: the context is cancelled while a handler is at work, and the handler goes on
// for seconds of real time (2.5 s in quick, 47 s in thorough - longer than the accept and read deadlines
// the server arms and than any patience a shutdown path is likely to have).
func TestC17EnumSlowHandler(t *testing.T) {
	hold := 2500
	if os.Getenv("VERIF_TIER") == "thorough" {
		hold = 47000
	}
	for _, ref := range []bool{false, true} {
		c := c17Case{Conns: []c17Conn{{Ops: []c17Op{{Kind: "pkt", Pieces: 1}}}, {Ops: []c17Op{{Kind: "pkt", Pieces: 1, Hold: true}}}, {}}, Cancel: "in-handler", Target: 1, HoldMs: hold, Ref: ref}
		runC17(t, c)
		classifyC17(c)
		hold = 1000
	}
}

func TestC17Regress(t *testing.T) {
	for _, s := range loadSaved(t, "C17") {
		var c c17Case
		mustUnmarshal(t, s, &c)
		runC17(t, c)
	}
}

var c17RefStacks int64

// serverGoroutines inspects all goroutine stacks: waiting reports whether some goroutine that runs
// tacquito code is parked inside the harness' scripted Read or Accept (i.e. waits for the harness);
// frames lists, for every goroutine running tacquito code, its innermost tacquito frames.
func serverGoroutines() (waiting bool, frames string) {
	buf := make([]byte, 1<<20)
	buf = buf[:runtime.Stack(buf, true)]
	var out []string
	for _, g := range strings.Split(string(buf), "\n\n") {
		if !strings.Contains(g, "github.com/facebookincubator/tacquito") {
			continue
		}
		if strings.Contains(g, "transport.(*Conn).Read") || strings.Contains(g, "transport.(*Listener).Accept") {
			waiting = true
		}
		var fs []string
		for _, ln := range strings.Split(g, "\n") {
			if strings.HasPrefix(ln, "github.com/facebookincubator/tacquito") {
				if i := strings.LastIndex(ln, "("); i > 0 {
					ln = ln[:i]
				}
				fs = append(fs, ln)
				if len(fs) == 3 {
					break
				}
			}
		}
		out = append(out, strings.Join(fs, " < "))
	}
	sort.Strings(out)
	return waiting, strings.Join(out, "\n")
}
