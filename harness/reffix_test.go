package harness

import (
	"reflect"
	"bytes"
	"context"
	"errors"
	"fmt"
	"log"
	"log/syslog"
	"net"
	"os"
	"path/filepath"
	"runtime"
	"strings"
	"sync"
	"syscall"

	tq "github.com/facebookincubator/tacquito"
	"github.com/facebookincubator/tacquito/cmds/server/config"
	reallog "github.com/facebookincubator/tacquito/cmds/server/log"
	"verif/harness/cfggen"
	"verif/harness/model"
	"verif/harness/refsrv"
	"verif/harness/transport"
)

// recSink records accounting lines, rendered as log.Logger would, stamped in the connection event log.
type recSink struct {
	mu    sync.Mutex
	log   func() *transport.Log
	lines []sinkLine
	// failEvery > 1 (Write only): every failEvery-th write reports an error after the line has been
	// taken (the first leg of a tee wrote it, a later one failed)
	failEvery int
	writes    int
}

// Write makes the sink usable as the io.Writer behind a log.Logger (which is what SetLogSinkDefault
// builds over a file).
func (s *recSink) Write(p []byte) (int, error) {
	s.Printf("%s", strings.TrimSuffix(string(p), "\n"))
	s.mu.Lock()
	s.writes++
	fail := s.failEvery > 1 && s.writes%s.failEvery == 0
	odd := s.writes%2 == 1
	s.mu.Unlock()
	if fail {
		if odd {
			return 0, errSinkLeg
		}
		return len(p), errSinkLeg
	}
	return len(p), nil
}

var errSinkLeg = errors.New("forwarding leg of the accounting log is down")

type sinkLine struct {
	Stamp int64
	Text  string
}

func (s *recSink) Printf(format string, args ...interface{}) {
	// a sink takes its time (a lock, a system call) before it has rendered what it was given: the
	// arguments are the caller's to keep valid until the call returns
	runtime.Gosched()
	text := fmt.Sprintf(format, args...)
	var st int64
	if s.log != nil {
		if l := s.log(); l != nil {
			st = l.Add(transport.EvNote, -1, 0, nil, "sink")
		}
	}
	s.mu.Lock()
	s.lines = append(s.lines, sinkLine{Stamp: st, Text: text})
	s.mu.Unlock()
}

func (s *recSink) take() []sinkLine {
	s.mu.Lock()
	defer s.mu.Unlock()
	l := s.lines
	s.lines = nil
	return l
}

// refEnv is the whole reference server on a scripted listener.
type refEnv struct {
	stack  *refsrv.Stack
	srv    *libServer
	rec    *refsrv.Recorder
	logger *refsrv.RecLogger
	sink   *recSink
	// realOut is what the reference logger wrote (refOpts.realLog)
	realOut *lockedBuf
	// syslogd is the harness end of the syslog accounter's socket (refOpts.syslog)
	syslogd *syslogd
}

// faultyKeychain is a shared-secret keychain (a "secure store") whose lookup fails for some keys.
type faultyKeychain map[string]bool

func (f faultyKeychain) Add(k config.Keychain) func(context.Context, string) ([]byte, error) {
	return func(ctx context.Context, remote string) ([]byte, error) {
		if f[k.Key] {
			return nil, fmt.Errorf("keychain: session expired")
		}
		return []byte(k.Key), nil
	}
}

// syslogd is a unixgram socket standing in for the system log service.
type syslogd struct {
	dir  string
	conn *net.UnixConn
	w    *syslog.Writer
}

func newSyslogd() (*syslogd, error) {
	dir, err := os.MkdirTemp("", "verif-syslog-")
	if err != nil {
		return nil, err
	}
	path := filepath.Join(dir, "log")
	conn, err := net.ListenUnixgram("unixgram", &net.UnixAddr{Name: path, Net: "unixgram"})
	if err != nil {
		os.RemoveAll(dir)
		return nil, err
	}
	_ = conn.SetReadBuffer(8 << 20)
	w, err := syslog.Dial("unixgram", path, syslog.LOG_INFO|syslog.LOG_AUTH, "tacquito")
	if err != nil {
		conn.Close()
		os.RemoveAll(dir)
		return nil, err
	}
	return &syslogd{dir: dir, conn: conn, w: w}, nil
}

// drain returns the messages (text after the syslog header) queued on the socket, without waiting: a
// datagram is queued before the sender's Write returns, so whatever the accounter wrote before
// replying is there once the reply has arrived.
func (s *syslogd) drain() []string {
	var out []string
	buf := make([]byte, 1<<20)
	rc, err := s.conn.SyscallConn()
	if err != nil {
		return nil
	}
	for {
		n := -1
		_ = rc.Read(func(fd uintptr) bool {
			n, _, _ = syscall.Recvfrom(int(fd), buf, syscall.MSG_DONTWAIT)
			return true
		})
		if n < 0 {
			return out
		}
		msg := string(buf[:n])
		if i := strings.Index(msg, "]: "); i >= 0 {
			msg = msg[i+3:]
		}
		out = append(out, strings.TrimSuffix(msg, "\n"))
	}
}

func (s *syslogd) close() {
	s.w.Close()
	s.conn.Close()
	os.RemoveAll(s.dir)
}

// lockedBuf is an io.Writer for the reference logger.
type lockedBuf struct {
	mu sync.Mutex
	b  bytes.Buffer
}

func (l *lockedBuf) Write(p []byte) (int, error) {
	l.mu.Lock()
	defer l.mu.Unlock()
	return l.b.Write(p)
}
func (l *lockedBuf) String() string { l.mu.Lock(); defer l.mu.Unlock(); return l.b.String() }

type refOpts struct {
	format   string
	keychain refsrv.Keychain
	recover  bool // swallow handler panics (recorded) instead of dying
	quiet    bool // use the lock-free no-op logger
	proxy    bool // run the server with SetUseProxy(true)
	// faultyKeys: shared-secret keys whose keychain lookup fails at connection time
	faultyKeys []string
	// syslog: also register the syslog accounter, writing to a datagram socket the harness reads
	syslog bool
	// realLog > 0: every log call is also passed to the reference logger (cmds/server/log) at this level,
	// writing to refEnv.realOut
	realLog int
	// sinkLogger > 0: the accounting sink is a log.Logger over the recording sink (as SetLogSinkDefault
	// builds one over a file) instead of the recording sink itself; > 1: every sinkLogger-th write of that
	// logger reports an error after the line was taken
	sinkLogger int
	// viaFile: the document is loaded from a file with Load(path), not handed to Unmarshal
	viaFile bool
	// aliasGroups: the document is decoded by the real loader and the configuration is then re-assembled
	// the way a provider written in Go would hold it - every group that occurs with the same content in
	// several users is ONE value (its rule and service slices shared, with spare capacity) - and handed
	// to the Loader through its Config channel.  Same policy, different ownership of the memory.
	aliasGroups bool
}

// aliasedGroups rewrites c so that groups of equal content share their slices.
func aliasedGroups(c config.ServerConfig) config.ServerConfig {
	var canon []config.Group
	for ui := range c.Users {
		for gi, g := range c.Users[ui].Groups {
			found := -1
			for k := range canon {
				if reflect.DeepEqual(canon[k], g) {
					found = k
					break
				}
			}
			if found < 0 {
				g.Commands = append(make([]config.Command, 0, len(g.Commands)+5), g.Commands...)
				g.Services = append(make([]config.Service, 0, len(g.Services)+5), g.Services...)
				canon = append(canon, g)
				// DeepEqual compares contents, not capacity: later occurrences still match
				found = len(canon) - 1
			}
			c.Users[ui].Groups[gi] = canon[found]
		}
	}
	return c
}

func startRef(cfg cfggen.Config, o refOpts) (*refEnv, error) {
	doc := cfg.YAML()
	if o.format == "json" {
		doc = cfg.JSON()
	}
	return startRefDoc(doc, o)
}

func startRefDoc(doc []byte, o refOpts) (*refEnv, error) {
	e := &refEnv{rec: &refsrv.Recorder{Recover: o.recover}, logger: &refsrv.RecLogger{}, sink: &recSink{}}
	if o.realLog != 0 {
		e.realOut = &lockedBuf{}
		e.logger.Tee = reallog.New(o.realLog, e.realOut)
	}
	var lg refsrv.Logger = e.logger
	if o.quiet {
		lg = refsrv.NopLogger{}
	}
	ro := refsrv.Options{Logger: lg, Sink: e.sink, Keychain: o.keychain, Format: o.format, ViaFile: o.viaFile}
	if o.sinkLogger > 0 {
		e.sink.failEvery = o.sinkLogger
		ro.Sink = log.New(e.sink, "", 0)
	}
	if len(o.faultyKeys) > 0 {
		fk := faultyKeychain{}
		for _, k := range o.faultyKeys {
			fk[k] = true
		}
		ro.SecretKeychain = fk
	}
	if o.syslog {
		sd, err := newSyslogd()
		if err != nil {
			return nil, fmt.Errorf("HARNESS-BUG: syslog socket: %v", err)
		}
		e.syslogd, ro.Syslog = sd, sd.w
	}
	if o.aliasGroups {
		l := newDocLoader(o.format)
		if err := l.Unmarshal(doc); err != nil {
			return nil, err
		}
		feed := &chanUM{ch: make(chan config.ServerConfig, 1)}
		feed.ch <- aliasedGroups(<-l.Config())
		ro.UM = feed
	}
	st, err := refsrv.New(doc, ro)
	if err != nil {
		if e.syslogd != nil {
			e.syslogd.close()
		}
		return nil, err
	}
	e.stack = st
	e.srv = startServer(lg, e.rec.SP(st.Loader), tq.SetUseProxy(o.proxy))
	e.sink.log = func() *transport.Log { return e.srv.log }
	return e, nil
}

func (e *refEnv) stop() error {
	err := e.srv.stop()
	e.stack.Close()
	if e.syslogd != nil {
		e.syslogd.close()
	}
	return err
}

// dial opens a scripted connection from ip.
func (e *refEnv) dial(ip net.IP, port int) (*connDriver, error) {
	return e.dialZone(ip, port, "")
}

// dialZone: the remote address carries an IPv6 zone (fe80::1%eth0).
func (e *refEnv) dialZone(ip net.IP, port int, zone string) (*connDriver, error) {
	c, err := e.srv.connect(&net.TCPAddr{IP: ip, Port: port, Zone: zone})
	if err != nil {
		return nil, err
	}
	return &connDriver{c: c}, nil
}

// papLogin sends a PAP login as a fresh session and returns the reply status (0 if no single reply).
func papLogin(d *connDriver, key []byte, session uint32, user, password string) (status byte, pkts []model.Packet, closed bool, err error) {
	body := model.AuthenStart{Action: 1, Priv: 1, AType: 2, Service: 1, User: model.B(user), Port: model.B("tty0"), RemAddr: model.B("192.0.2.1"), Data: model.B(password)}.Encode()
	wire := model.Frame(key, model.Header{Version: 0xc1, Type: model.TypeAuthen, Seq: 1, Session: session}, body)
	pkts, _, closed, err = d.send(wire)
	if err != nil || len(pkts) != 1 {
		return 0, pkts, closed, err
	}
	r, ok, _ := model.DecodeAuthenReply(pkts[0].Clear(key))
	if !ok {
		return 0, pkts, closed, nil
	}
	return r.Status, pkts, closed, nil
}
