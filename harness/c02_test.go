package harness

import (
	"encoding/json"
	"fmt"
	"testing"

	tq "github.com/facebookincubator/tacquito"
	"verif/harness/ev"
	"verif/harness/model"

	"pgregory.net/rapid"
)

// C02 — encode/decode is lossless; values that do not fit the wire widths or break the type's own
// validation are refused, never mangled.

type c02Case struct {
	Dir   string          `json:"dir"` // "encode-first" | "decode-first"
	Codec string          `json:"codec"`
	Value json.RawMessage `json:"value,omitempty"`
	Bytes model.B         `json:"bytes,omitempty"`
}

// fits is the harness' own table of wire widths.
func fits(m interface{}) (bool, string) {
	f1 := func(name string, b model.B) (bool, string) {
		if len(b) > 255 {
			return false, name + ">255"
		}
		return true, ""
	}
	f2 := func(name string, b model.B) (bool, string) {
		if len(b) > 65535 {
			return false, name + ">65535"
		}
		return true, ""
	}
	fa := func(args []model.B) (bool, string) {
		if len(args) > 255 {
			return false, "args>255"
		}
		for _, a := range args {
			if len(a) > 255 {
				return false, "arg>255"
			}
		}
		return true, ""
	}
	all := func(rs ...func() (bool, string)) (bool, string) {
		for _, r := range rs {
			if ok, why := r(); !ok {
				return false, why
			}
		}
		return true, ""
	}
	w := func(f func(string, model.B) (bool, string), n string, b model.B) func() (bool, string) {
		return func() (bool, string) { return f(n, b) }
	}
	switch v := m.(type) {
	case model.Header:
		if v.Length > 65536 {
			return false, "length>65536"
		}
		return true, ""
	case PacketM:
		if v.H.Length > 65536 {
			return false, "length>65536"
		}
		if int(v.H.Length) != len(v.Body) {
			return false, "length!=len(body)"
		}
		return true, ""
	case model.AuthenStart:
		return all(w(f1, "user", v.User), w(f1, "port", v.Port), w(f1, "rem_addr", v.RemAddr), w(f1, "data", v.Data))
	case model.AuthenReply:
		return all(w(f2, "server_msg", v.ServerMsg), w(f2, "data", v.Data))
	case model.AuthenContinue:
		return all(w(f2, "user_msg", v.UserMsg), w(f2, "data", v.Data))
	case model.AuthorRequest:
		return all(w(f1, "user", v.User), w(f1, "port", v.Port), w(f1, "rem_addr", v.RemAddr), func() (bool, string) { return fa(v.Args) })
	case model.AuthorReply:
		return all(w(f2, "server_msg", v.ServerMsg), w(f2, "data", v.Data), func() (bool, string) { return fa(v.Args) })
	case model.AcctRequest:
		return all(w(f1, "user", v.User), w(f1, "port", v.Port), w(f1, "rem_addr", v.RemAddr), func() (bool, string) { return fa(v.Args) })
	case model.AcctReply:
		return all(w(f2, "server_msg", v.ServerMsg), w(f2, "data", v.Data))
	}
	return true, ""
}

func fill(n int, c byte) model.B {
	out := make(model.B, n)
	for i := range out {
		out[i] = c + byte(i%7)
	}
	return out
}

var (
	edge1    = []int{0, 1, 2, 254, 255, 256, 257, 300, 511, 512}
	edge2    = []int{0, 1, 2, 254, 255, 256, 65534, 65535, 65536, 65537, 70000}
	edgeCnt  = []int{0, 1, 2, 254, 255, 256, 257, 300}
	edgeArgL = []int{0, 1, 2, 3, 254, 255, 256, 300}
)

// stretch rewrites one aspect of a valid value to a boundary value; returns a label.
func stretch(t *rapid.T, m interface{}) (interface{}, string) {
	pick1 := func(lbl string) model.B {
		return fill(rapid.SampledFrom(edge1).Draw(t, lbl), 'a')
	}
	pick2 := func(lbl string) model.B {
		return fill(rapid.SampledFrom(edge2).Draw(t, lbl), 'k')
	}
	pickArgs := func(minLen int) []model.B {
		n := rapid.SampledFrom(edgeCnt).Draw(t, "argcnt")
		args := make([]model.B, n)
		// sparse: every argument as short as the type allows (many arguments, almost no text)
		sparse := rapid.Bool().Draw(t, "sparse_args")
		for i := range args {
			if sparse {
				args[i] = fill(minLen, '0')
			} else {
				args[i] = fill(minLen+i%3, '0')
			}
		}
		if n > 0 && rapid.Bool().Draw(t, "edge_arg") {
			args[rapid.IntRange(0, n-1).Draw(t, "edge_idx")] = fill(rapid.SampledFrom(edgeArgL).Draw(t, "edge_arglen"), 'z')
		}
		return args
	}
	which := rapid.IntRange(0, 5).Draw(t, "stretch_which")
	switch v := m.(type) {
	case model.Header:
		switch which % 3 {
		case 0:
			v.Length = rapid.SampledFrom([]uint32{65535, 65536, 65537, 1 << 24, 0xffffffff}).Draw(t, "len")
			return v, "length-edge"
		case 1:
			v.Version = rapid.Byte().Draw(t, "ver")
			return v, "version-any"
		default:
			v.Type = rapid.Byte().Draw(t, "typ")
			return v, "type-any"
		}
	case PacketM:
		switch which % 3 {
		case 0:
			v.H.Length = uint32(len(v.Body) + rapid.SampledFrom([]int{-1, 1, 5, 65536}).Draw(t, "delta"))
			return v, "length-mismatch"
		case 1:
			n := rapid.SampledFrom([]int{65535, 65536, 65537, 70000}).Draw(t, "biglen")
			v.Body = fill(n, 1)
			v.H.Length = uint32(n)
			return v, "body-edge"
		default:
			v.Body = nil
			v.H.Length = 0
			return v, "nil-body"
		}
	case model.AuthenStart:
		switch which % 5 {
		case 0:
			v.User = pick1("user")
		case 1:
			v.Port = pick1("port")
		case 2:
			v.RemAddr = pick1("rem")
		case 3:
			v.Data = pick1("data")
		default:
			v.User, v.Data = pick1("user"), pick1("data")
		}
		return v, "field-edge"
	case model.AuthenReply:
		if which%2 == 0 {
			v.ServerMsg = pick2("msg")
		} else {
			v.Data = pick2("data")
		}
		return v, "field-edge"
	case model.AuthenContinue:
		if which%2 == 0 {
			v.UserMsg = pick2("msg")
		} else {
			v.Data = pick2("data")
		}
		return v, "field-edge"
	case model.AuthorRequest:
		switch which % 4 {
		case 0:
			v.User = pick1("user")
		case 1:
			v.Port = pick1("port")
		case 2:
			v.RemAddr = pick1("rem")
		default:
			v.Args = pickArgs(2)
			return v, "args-edge"
		}
		return v, "field-edge"
	case model.AuthorReply:
		switch which % 3 {
		case 0:
			v.ServerMsg = pick2("msg")
		case 1:
			v.Data = pick2("data")
		default:
			v.Args = pickArgs(2)
			return v, "args-edge"
		}
		return v, "field-edge"
	case model.AcctRequest:
		switch which % 4 {
		case 0:
			v.User = pick1("user")
		case 1:
			v.Port = pick1("port")
		case 2:
			v.RemAddr = pick1("rem")
		default:
			v.Args = pickArgs(0)
			return v, "args-edge"
		}
		return v, "field-edge"
	case model.AcctReply:
		if which%2 == 0 {
			v.ServerMsg = pick2("msg")
		} else {
			v.Data = pick2("data")
		}
		return v, "field-edge"
	}
	return m, "none"
}

// spoil makes a valid value break the type's own validation rules (enum out of range, non-ASCII
// text, priv-lvl > 15, contradictory flags, too-short argument).
func spoil(t *rapid.T, m interface{}) (interface{}, string) {
	bad := rapid.SampledFrom([]byte{0x80, 0xc3, 0xff}).Draw(t, "badbyte")
	dirty := func(b model.B) model.B {
		out := append(model.B{}, b...)
		out = append(out, bad)
		return out
	}
	enum := rapid.SampledFrom([]byte{0, 3, 7, 9, 10, 11, 0x12, 0x21, 0x7f, 0xff}).Draw(t, "badenum")
	which := rapid.IntRange(0, 7).Draw(t, "spoil_which")
	switch v := m.(type) {
	case model.AuthenStart:
		switch which % 6 {
		case 0:
			v.Action = enum
		case 1:
			v.Priv = 16 + enum%200
		case 2:
			v.AType = enum
		case 3:
			v.Service = 10 + enum%200
		case 4:
			v.User = dirty(v.User)
		default:
			v.AType = 1
			v.Data = dirty(v.Data)
		}
		return v, "spoiled"
	case model.AuthenReply:
		v.Status = enum
		return v, "spoiled"
	case model.AuthenContinue:
		v.UserMsg = dirty(v.UserMsg)
		return v, "spoiled"
	case model.AuthorRequest:
		switch which % 6 {
		case 0:
			v.Method = enum
		case 1:
			v.Priv = 16 + enum%200
		case 2:
			v.Port = dirty(v.Port)
		case 3:
			v.Args = append(append([]model.B{}, v.Args...), model.B("x"))
		case 4:
			v.Args = append(append([]model.B{}, v.Args...), dirty(model.B("a=")))
		default:
			v.AType = 7 + enum%100
		}
		return v, "spoiled"
	case model.AuthorReply:
		switch which % 3 {
		case 0:
			v.Status = enum
		case 1:
			v.ServerMsg = dirty(v.ServerMsg)
		default:
			v.Args = append(append([]model.B{}, v.Args...), model.B(""))
		}
		return v, "spoiled"
	case model.AcctRequest:
		switch which % 4 {
		case 0:
			v.Flags |= 0x0c
		case 1:
			v.Method = enum
		case 2:
			v.RemAddr = dirty(v.RemAddr)
		default:
			v.Args = append(append([]model.B{}, v.Args...), dirty(model.B("")))
		}
		return v, "spoiled"
	case model.AcctReply:
		if which%2 == 0 {
			v.Status = enum
		} else {
			v.Data = dirty(v.Data)
		}
		return v, "spoiled"
	case model.Header:
		if which%2 == 0 {
			v.Seq = 0
		} else {
			v.Version = v.Version&0x0f | 0xd0
		}
		return v, "spoiled"
	case PacketM:
		v.H.Type = 4 + enum%100
		return v, "spoiled"
	}
	return m, "none"
}

// libSeq builds a header whose sequence number does not fit one octet (the library's type is 16 bit)
func headerWithSeq(h model.Header, seq int) tq.EncoderDecoder {
	l := libHeader(h)
	l.SeqNo = tq.SequenceNumber(seq)
	return l
}

// argRuleBroken states the argument rules of the authorization bodies independently of the library:
// an argument is 2..255 octets of US-ASCII (accounting arguments may also be shorter); and the one rule of
// the authentication START that depends on another field: with authen_type ASCII the data field is
// US-ASCII (the library's own comment at AuthenData.Validate; a change that disconnects that rule from
// AuthenStart.Validate silences both the decoder and the value's Validate, round 19).
func argRuleBroken(m interface{}) (bool, string) {
	var args []model.B
	min := 2
	switch v := m.(type) {
	case model.AuthenStart:
		if v.AType == 1 && !isASCII(v.Data) {
			return true, "authen_type is ASCII and the data field is not US-ASCII"
		}
		return false, ""
	case model.AuthorRequest:
		args = v.Args
	case model.AuthorReply:
		args = v.Args
	case model.AcctRequest:
		args, min = v.Args, 0
	default:
		return false, ""
	}
	for i, a := range args {
		if len(a) < min {
			return true, fmt.Sprintf("argument %d has %d octets, fewer than %d", i, len(a), min)
		}
		if !isASCII(a) {
			return true, fmt.Sprintf("argument %d is not US-ASCII", i)
		}
	}
	return false, ""
}

// c02History decodes the value's arguments as part of the other two argument-carrying bodies.
func c02History(m interface{}) {
	var args []model.B
	switch v := m.(type) {
	case model.AuthorRequest:
		args = v.Args
	case model.AuthorReply:
		args = v.Args
	case model.AcctRequest:
		args = v.Args
	default:
		return
	}
	if len(args) == 0 || len(args) > 255 {
		return
	}
	for _, a := range args {
		if len(a) > 255 {
			return
		}
	}
	catch(func() {
		_ = tq.Unmarshal(model.AcctRequest{Flags: 2, Method: 6, Priv: 1, AType: 1, Service: 1, User: b("h"), Args: args}.Encode(), &tq.AcctRequest{})
		_ = tq.Unmarshal(model.AuthorRequest{Method: 6, Priv: 1, AType: 1, Service: 1, User: b("h"), Args: args}.Encode(), &tq.AuthorRequest{})
		_ = tq.Unmarshal(model.AuthorReply{Status: 1, Args: args}.Encode(), &tq.AuthorReply{})
	})
}

func checkC02Encode(t failer, c *codec, m interface{}, label string) {
	ev.Eval()
	raw, _ := json.Marshal(m)
	cc := c02Case{Dir: "encode-first", Codec: c.name, Value: raw}
	lib := c.toLib(m)
	// what other packets the process has handled before must not matter: the same arguments first pass
	// through the decoders of the other argument-carrying bodies (whose rules for them differ)
	c02History(m)
	verr := c.validate(lib)
	if bad, rule := argRuleBroken(m); bad && verr == nil {
		verr = fmt.Errorf("%s (the value's own Validate said nothing)", rule)
	}
	okFit, why := fits(m)
	enc, err := lib.MarshalBinary()
	if err != nil {
		ev.Class(c.name + ":enc-refused:" + label)
		if !okFit || verr != nil {
			ev.NonTrivial(c.name+":refused", cc)
		}
		return
	}
	if !okFit {
		violation(t, "C02", c.name, "C02:"+c.name+":unrepresentable-value-encoded", cc,
			"%s: value does not fit the wire (%s) but MarshalBinary returned %d bytes and no error", c.name, why, len(enc))
	}
	if verr != nil {
		violation(t, "C02", c.name, "C02:"+c.name+":invalid-value-encoded", cc,
			"%s: value fails its own Validate (%v) but MarshalBinary returned no error", c.name, verr)
	}
	dec := c.newLib()
	var derr error
	if p := catch(func() { derr = dec.UnmarshalBinary(enc) }); p != nil {
		violation(t, "C02", c.name, "C02:"+c.name+":own-encoding-panics", cc, "%s: UnmarshalBinary panics on what MarshalBinary produced: %v", c.name, p)
	}
	if derr != nil {
		violation(t, "C02", c.name, "C02:"+c.name+":own-encoding-refused", cc,
			"%s: UnmarshalBinary refuses what MarshalBinary produced: %v", c.name, derr)
	}
	back := c.fromLib(dec)
	if exp := expectedDecode(c, m); !sameModel(back, exp) {
		violation(t, "C02", c.name, "C02:"+c.name+":roundtrip-differs", cc,
			"%s: encode→decode changed the value\n got =%s\n want=%s", c.name, js(back), js(exp))
	}
	ev.Class(c.name + ":roundtrip:" + label)
	if label != "plain" {
		ev.NonTrivial(c.name+":"+label, cc)
	}
}

func checkC02Decode(t failer, c *codec, in []byte, label string) {
	ev.Eval()
	cc := c02Case{Dir: "decode-first", Codec: c.name, Bytes: in}
	v := c.newLib()
	var derr error
	if p := catch(func() { derr = v.UnmarshalBinary(append([]byte{}, in...)) }); p != nil {
		violation(t, "C02", c.name, "C02:"+c.name+":decode-panics", cc, "%s: UnmarshalBinary panics: %v", c.name, p)
	}
	if derr != nil {
		ev.Class(c.name + ":dec-refused:" + label)
		return
	}
	m1 := c.fromLib(v)
	enc, err := v.MarshalBinary()
	if err != nil {
		violation(t, "C02", c.name, "C02:"+c.name+":decoded-value-not-encodable", cc,
			"%s: bytes decode without error to %s but that value does not encode: %v", c.name, js(m1), err)
	}
	v2 := c.newLib()
	if err := v2.UnmarshalBinary(enc); err != nil {
		violation(t, "C02", c.name, "C02:"+c.name+":reencoding-refused", cc,
			"%s: re-encoded bytes are refused: %v", c.name, err)
	}
	if m2 := c.fromLib(v2); !sameModel(m1, m2) {
		violation(t, "C02", c.name, "C02:"+c.name+":decode-encode-decode-differs", cc,
			"%s: decode→encode→decode changed the value\n first =%s\n second=%s", c.name, js(m1), js(m2))
	}
	checkDirtyTarget(t, "C02", c, in, m1, cc)
	ev.Class(c.name + ":dec-roundtrip:" + label)
	if label != "plain" {
		ev.NonTrivial(c.name+":dec:"+label, cc)
	}
}

func genDecodeInput(t *rapid.T, c *codec) ([]byte, string) {
	switch rapid.IntRange(0, 5).Draw(t, "input_kind") {
	case 0:
		return c.encode(c.gen(t)), "plain"
	case 1, 2:
		enc := c.encode(c.gen(t))
		tail := rapid.SliceOfN(rapid.Byte(), 1, 20).Draw(t, "tail")
		return append(enc, tail...), "trailing"
	case 3:
		enc := c.encode(c.gen(t))
		if len(enc) > 0 {
			n := rapid.IntRange(1, 3).Draw(t, "nmut")
			for i := 0; i < n; i++ {
				// mostly inside the fixed part, where lengths and enums live
				pos := rapid.OneOf(rapid.IntRange(0, min(len(enc)-1, 12)), rapid.IntRange(0, len(enc)-1)).Draw(t, "mutpos")
				enc[pos] = rapid.Byte().Draw(t, "mutval")
			}
		}
		return enc, "mutated"
	case 4:
		enc := c.encode(c.gen(t))
		if len(enc) > 0 {
			enc = enc[:rapid.IntRange(0, len(enc)-1).Draw(t, "cut")]
		}
		return enc, "truncated"
	default:
		return rapid.SliceOfN(rapid.Byte(), 0, 64).Draw(t, "raw"), "raw"
	}
}

// catch runs f and returns the recovered panic value, if any.
func catch(f func()) (p interface{}) {
	defer func() { p = recover() }()
	f()
	return nil
}

func min(a, b int) int {
	if a < b {
		return a
	}
	return b
}

func TestC02(t *testing.T) {
	for i := range codecs {
		c := &codecs[i]
		t.Run(c.name+"/encode-first", func(t *testing.T) {
			rapid.Check(t, func(rt *rapid.T) {
				m := c.gen(rt)
				label := "plain"
				switch rapid.IntRange(0, 3).Draw(rt, "variant") {
				case 1, 2:
					m, label = stretch(rt, m)
				case 3:
					m, label = spoil(rt, m)
				}
				checkC02Encode(rt, c, m, label)
			})
		})
		t.Run(c.name+"/decode-first", func(t *testing.T) {
			rapid.Check(t, func(rt *rapid.T) {
				in, label := genDecodeInput(rt, c)
				checkC02Decode(rt, c, in, label)
			})
		})
	}
}

// TestC02Enum sweeps every boundary length deterministically for every field of every type.
func TestC02Enum(t *testing.T) {
	for _, n := range edge1 {
		f := fill(n, 'a')
		base := model.AuthenStart{Action: 1, Priv: 1, AType: 2, Service: 1}
		for k := 0; k < 4; k++ {
			v := base
			switch k {
			case 0:
				v.User = f
			case 1:
				v.Port = f
			case 2:
				v.RemAddr = f
			case 3:
				v.Data = f
			}
			checkC02Encode(t, codecByName("AuthenStart"), v, "sweep")
		}
		for k := 0; k < 3; k++ {
			ar := model.AuthorRequest{Method: 6, Priv: 1, AType: 1, Service: 1, Args: []model.B{b("service=shell")}}
			ac := model.AcctRequest{Flags: 2, Method: 6, Priv: 1, AType: 1, Service: 1, Args: []model.B{b("task_id=1")}}
			switch k {
			case 0:
				ar.User, ac.User = f, f
			case 1:
				ar.Port, ac.Port = f, f
			case 2:
				ar.RemAddr, ac.RemAddr = f, f
			}
			checkC02Encode(t, codecByName("AuthorRequest"), ar, "sweep")
			checkC02Encode(t, codecByName("AcctRequest"), ac, "sweep")
		}
	}
	for _, n := range edge2 {
		f := fill(n, 'k')
		checkC02Encode(t, codecByName("AuthenReply"), model.AuthenReply{Status: 1, ServerMsg: f}, "sweep")
		checkC02Encode(t, codecByName("AuthenReply"), model.AuthenReply{Status: 1, Data: f}, "sweep")
		checkC02Encode(t, codecByName("AuthenContinue"), model.AuthenContinue{UserMsg: f}, "sweep")
		checkC02Encode(t, codecByName("AuthenContinue"), model.AuthenContinue{Data: f}, "sweep")
		checkC02Encode(t, codecByName("AuthorReply"), model.AuthorReply{Status: 1, ServerMsg: f}, "sweep")
		checkC02Encode(t, codecByName("AuthorReply"), model.AuthorReply{Status: 1, Data: f}, "sweep")
		checkC02Encode(t, codecByName("AcctReply"), model.AcctReply{Status: 1, ServerMsg: f}, "sweep")
		checkC02Encode(t, codecByName("AcctReply"), model.AcctReply{Status: 1, Data: f}, "sweep")
	}
	for _, n := range edgeCnt {
		for _, l := range edgeArgL {
			args := make([]model.B, n)
			for i := range args {
				args[i] = fill(2+i%3, '0')
			}
			if n > 0 {
				args[n/2] = fill(l, 'z')
			}
			checkC02Encode(t, codecByName("AuthorRequest"), model.AuthorRequest{Method: 6, Priv: 1, AType: 1, Service: 1, User: b("u"), Args: args}, "sweep")
			checkC02Encode(t, codecByName("AuthorReply"), model.AuthorReply{Status: 1, Args: args}, "sweep")
			checkC02Encode(t, codecByName("AcctRequest"), model.AcctRequest{Flags: 2, Method: 6, Priv: 1, AType: 1, Service: 1, User: b("u"), Args: args}, "sweep")
		}
	}
	for _, l := range []uint32{0, 1, 65535, 65536, 65537, 1 << 31, 0xffffffff} {
		checkC02Encode(t, codecByName("Header"), model.Header{Version: 0xc0, Type: 1, Seq: 1, Session: 9, Length: l}, "sweep")
	}
	for _, d := range []int{-3, -1, 0, 1, 7} {
		body := fill(20, 1)
		checkC02Encode(t, codecByName("Packet"), PacketM{H: model.Header{Version: 0xc0, Type: 1, Seq: 1, Session: 9, Length: uint32(20 + d)}, Body: body}, "sweep")
	}
	// sequence numbers that do not fit the octet (the library's SequenceNumber is 16 bits wide)
	for _, seq := range []int{0, 256, 257, 511, 65535} {
		ev.Eval()
		h := headerWithSeq(model.Header{Version: 0xc0, Type: 1, Session: 9}, seq)
		if enc, err := h.MarshalBinary(); err == nil {
			violation(t, "C02", "Header", "C02:Header:unrepresentable-value-encoded", map[string]int{"seq": seq},
				"header with sequence number %d encodes to %x without error", seq, enc)
		}
	}
}

// TestC02EnumVersion: every (major, minor) pair of the library's Version value in a Header: an encode
// that succeeds must decode back to the same pair; a nibble that does not fit four bits must be refused.
func TestC02EnumVersion(t *testing.T) {
	for major := 0; major < 256; major++ {
		for minor := 0; minor < 256; minor++ {
			if major != 0xc && minor > 20 && minor%17 != 0 {
				continue // thin out: all minors for major 0xc, a sample otherwise
			}
			ev.Eval()
			h := &tq.Header{Version: tq.Version{MajorVersion: uint8(major), MinorVersion: uint8(minor)}, Type: tq.Authenticate, SeqNo: 1, SessionID: 7, Length: 0}
			cse := map[string]int{"major": major, "minor": minor}
			enc, err := h.MarshalBinary()
			if err != nil {
				continue
			}
			if major > 15 || minor > 15 {
				violation(t, "C02", "Header", "C02:Header:unrepresentable-value-encoded", cse, "header version major %d minor %d does not fit the two nibbles of the version octet but encodes to %x", major, minor, enc)
			}
			var back tq.Header
			if err := back.UnmarshalBinary(enc); err != nil {
				violation(t, "C02", "Header", "C02:Header:own-encoding-refused", cse, "header version major %d minor %d encodes to %x, which the decoder refuses: %v", major, minor, enc, err)
			}
			if back.Version != h.Version {
				violation(t, "C02", "Header", "C02:Header:roundtrip-differs", cse, "header version %+v decodes back as %+v", h.Version, back.Version)
			}
			ev.Class("Header:version-sweep")
		}
	}
}

func TestC02Regress(t *testing.T) {
	for _, s := range loadSaved(t, "C02") {
		var cc c02Case
		mustUnmarshal(t, s, &cc)
		c := codecByName(cc.Codec)
		if c == nil {
			t.Fatalf("%s: unknown codec %q", s.Note, cc.Codec)
		}
		if cc.Dir == "decode-first" {
			checkC02Decode(t, c, cc.Bytes, "saved")
			continue
		}
		m, err := modelFromJSON(cc.Codec, cc.Value)
		if err != nil {
			t.Fatalf("%s: %v", s.Note, err)
		}
		checkC02Encode(t, c, m, "saved")
	}
}

// checkDirtyTarget: decoding into a value that already holds something else (a reused target) must
// yield exactly what decoding into a fresh value yields: the decoder sets every field.
func checkDirtyTarget(t failer, prop string, c *codec, in []byte, fresh interface{}, cc interface{}) {
	dirty := c.toLib(dirtyModels[c.name])
	var derr error
	if p := catch(func() { derr = dirty.UnmarshalBinary(append([]byte{}, in...)) }); p != nil {
		violation(t, prop, c.name, prop+":"+c.name+":decode-panics", cc, "%s: UnmarshalBinary into a reused target panics: %v", c.name, p)
	}
	if derr != nil {
		violation(t, prop, c.name, prop+":"+c.name+":decode-depends-on-target", cc,
			"%s: bytes that decode into a fresh value are refused when the target already held a value: %v", c.name, derr)
	}
	if got := c.fromLib(dirty); !sameModel(got, fresh) {
		violation(t, prop, c.name, prop+":"+c.name+":decode-depends-on-target", cc,
			"%s: decoding into a target that already held a value yields something else than decoding into a fresh one\n reused=%s\n fresh =%s", c.name, js(got), js(fresh))
	}
}

// dirtyModels: what a reused decode target holds beforehand (every flag bit set, every field non-empty).
var dirtyModels = map[string]interface{}{
	"Header":         model.Header{Version: 0xc1, Type: 3, Seq: 2, Flags: 0xff, Session: 0xffffffff, Length: 65536},
	"Packet":         PacketM{H: model.Header{Version: 0xc1, Type: 3, Seq: 2, Flags: 0xff, Session: 0xffffffff, Length: 3}, Body: model.B{9, 9, 9}},
	"AuthenStart":    model.AuthenStart{Action: 4, Priv: 15, AType: 6, Service: 9, User: b("dirty-user"), Port: b("dirty-port"), RemAddr: b("dirty-rem"), Data: b("dirty-data")},
	"AuthenReply":    model.AuthenReply{Status: 7, Flags: 0xff, ServerMsg: b("dirty-msg"), Data: b("dirty-data")},
	"AuthenContinue": model.AuthenContinue{Flags: 0xff, UserMsg: b("dirty-msg"), Data: b("dirty-data")},
	"AuthorRequest":  model.AuthorRequest{Method: 0x10, Priv: 15, AType: 6, Service: 9, User: b("dirty-user"), Port: b("dirty-port"), RemAddr: b("dirty-rem"), Args: []model.B{b("dirty=1"), b("dirty=2"), b("dirty=3")}},
	"AuthorReply":    model.AuthorReply{Status: 0x11, ServerMsg: b("dirty-msg"), Data: b("dirty-data"), Args: []model.B{b("dirty=1"), b("dirty=2"), b("dirty=3")}},
	"AcctRequest":    model.AcctRequest{Flags: 0xf3, Method: 0x10, Priv: 15, AType: 6, Service: 9, User: b("dirty-user"), Port: b("dirty-port"), RemAddr: b("dirty-rem"), Args: []model.B{b("dirty=1"), b("dirty=2"), b("dirty=3")}},
	"AcctReply":      model.AcctReply{Status: 2, ServerMsg: b("dirty-msg"), Data: b("dirty-data")},
}
