package harness

import (
	"bytes"
	"net"
	"sync"
	"testing"

	tq "github.com/facebookincubator/tacquito"
	"verif/harness/ev"
	"verif/harness/model"
)

// Two connections of one server whose packets overlap in time, in orders chosen by the harness:
//
//   - C03: connection A's packet arrives in two segments (header, later the body); between the two a
//     complete exchange takes place on connection B.  A's handler must receive A's cleartext.
//   - C05: connection A's handler is still at work on a long request (it looks at the body when it starts
//     and again before it returns) while a long request arrives and is handled on connection B.  What A
//     was given is what A's peer wrote, from the first look to the last.

type overlapHandler struct {
	mu      sync.Mutex
	first   map[uint32][]byte // session -> body as seen on entry
	last    map[uint32][]byte // session -> body as seen before returning
	hold    map[uint32]chan struct{}
	entered chan uint32
}

func (h *overlapHandler) Handle(resp tq.Response, req tq.Request) {
	sid := uint32(req.Header.SessionID)
	h.mu.Lock()
	h.first[sid] = append([]byte{}, req.Body...)
	ch := h.hold[sid]
	h.mu.Unlock()
	if ch != nil {
		h.entered <- sid
		<-ch
	}
	h.mu.Lock()
	h.last[sid] = append([]byte{}, req.Body...)
	h.mu.Unlock()
	_, _ = resp.Reply(rawED{[]byte{0, 0, 0, 0, 0, 0}})
}

func runOverlap(t failer, prop string, sizeA, sizeB int, segmented, holdA bool) {
	ev.Eval()
	secret := []byte("overlap-key")
	cse := map[string]interface{}{"overlap": true, "size_a": sizeA, "size_b": sizeB, "a_segmented": segmented, "a_held": holdA}
	journal(prop, cse)
	h := &overlapHandler{first: map[uint32][]byte{}, last: map[uint32][]byte{}, hold: map[uint32]chan struct{}{}, entered: make(chan uint32, 4)}
	srv := startServer(nopLogger{}, staticSP{secret: secret, handler: h})
	defer func() {
		if e := srv.stop(); e != nil {
			t.Fatalf("%v", e)
		}
	}()
	ca, err := srv.connect(&net.TCPAddr{IP: net.IPv4(192, 0, 2, 1), Port: 41001})
	if err != nil {
		t.Fatalf("%v", err)
	}
	cb, err := srv.connect(&net.TCPAddr{IP: net.IPv4(192, 0, 2, 2), Port: 41002})
	if err != nil {
		t.Fatalf("%v", err)
	}
	bodyA := consistentBody(1, sizeA, []byte{0xa1, 0xa2, 0xa3})
	bodyB := consistentBody(1, sizeB, []byte{0xb1, 0xb2})
	wireA := model.Frame(secret, model.Header{Version: 0xc0, Type: 1, Seq: 1, Session: 0xa}, bodyA)
	wireB := model.Frame(secret, model.Header{Version: 0xc0, Type: 1, Seq: 1, Session: 0xb}, bodyB)
	var release chan struct{}
	if holdA {
		release = make(chan struct{})
		h.mu.Lock()
		h.hold[0xa] = release
		h.mu.Unlock()
	}
	if segmented {
		ca.Feed(wireA[:12])
		if !ca.AwaitQuiescentOrClosed(watchdog) {
			t.Fatalf("HARNESS-BUG/INCONCLUSIVE: connection A wedged after its header")
		}
	} else {
		ca.Feed(wireA)
		if holdA {
			select {
			case <-h.entered:
			case <-timeAfter(watchdog):
				t.Fatalf("HARNESS-BUG/INCONCLUSIVE: A's handler never started")
			}
		}
	}
	// the whole exchange on B, also in two segments so that it takes the same read path
	cb.Feed(wireB[:12])
	cb.AwaitQuiescentOrClosed(watchdog)
	cb.Feed(wireB[12:])
	if !cb.AwaitQuiescentOrClosed(watchdog) {
		t.Fatalf("HARNESS-BUG/INCONCLUSIVE: connection B wedged")
	}
	if segmented {
		ca.Feed(wireA[12:])
		if holdA {
			select {
			case <-h.entered:
			case <-timeAfter(watchdog):
				// the handler may never be reached if the body was mangled; the comparison below reports it
			}
		}
	}
	if holdA {
		close(release)
	}
	if !ca.AwaitQuiescentOrClosed(watchdog) {
		t.Fatalf("HARNESS-BUG/INCONCLUSIVE: connection A wedged")
	}
	h.mu.Lock()
	fa, la, fb := h.first[0xa], h.last[0xa], h.first[0xb]
	h.mu.Unlock()
	switch {
	case !bytes.Equal(fb, bodyB):
		violation(t, prop, "overlap", prop+":overlap:cleartext-differs", cse, "connection B's handler did not receive the cleartext its peer wrote (%d octets, got %d, first difference at %d)", len(bodyB), len(fb), firstDiff(fb, bodyB))
	case !bytes.Equal(fa, bodyA):
		violation(t, prop, "overlap", prop+":overlap:cleartext-differs", cse, "connection A's handler did not receive the cleartext its peer wrote (%d octets, got %d, first difference at %d), an exchange on connection B having taken place %s", len(bodyA), len(fa), firstDiff(fa, bodyA), map[bool]string{true: "between A's header and A's body", false: "while A's handler was at work"}[segmented])
	case !bytes.Equal(la, bodyA):
		violation(t, prop, "overlap", prop+":overlap:request-changed-while-handled", cse, "the request body connection A's handler was given changed while the handler was at work and a request was received on connection B (first difference at %d)", firstDiff(la, bodyA))
	}
	ev.Class("two-connections-overlapping")
	ev.NonTrivial("overlap", cse)
}

func TestC03EnumOverlap(t *testing.T) {
	for _, n := range [][2]int{{120, 120}, {120, 4000}, {4000, 120}, {40000, 40000}, {96, 200}, {65536, 33000}} {
		runOverlap(t, "C03", n[0], n[1], true, false)
		runOverlap(t, "C03", n[0], n[1], true, true)
	}
}

func TestC05EnumOverlap(t *testing.T) {
	for _, n := range [][2]int{{120, 120}, {4000, 4000}, {40000, 40000}, {33000, 65536}, {65536, 65536}} {
		runOverlap(t, "C05", n[0], n[1], false, true)
		runOverlap(t, "C05", n[0], n[1], true, true)
	}
}
