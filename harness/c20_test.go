package harness

import (
	"context"
	"flag"
	"fmt"
	"net"
	"strconv"
	"sync"
	"syscall"
	"testing"

	tq "github.com/facebookincubator/tacquito"
	"github.com/prometheus/client_golang/prometheus"
	"verif/harness/ev"
	"verif/harness/model"
	"verif/harness/transport"

	"pgregory.net/rapid"
)

// C20 — the in-flight gauges return to rest after every mix of completed, abandoned and rejected
// sessions, and never go below their resting value.

var c20Gauges = []string{"tacquito_serve_accepted", "tacquito_handle_handlers", "tacquito_sessions_active", "tacquito_waitgroup_handle_routines_active"}

func readGauges(names []string) (map[string]float64, error) {
	mfs, err := prometheus.DefaultGatherer.Gather()
	if err != nil {
		return nil, err
	}
	out := map[string]float64{}
	for _, mf := range mfs {
		for _, n := range names {
			if mf.GetName() == n && len(mf.GetMetric()) > 0 {
				out[n] = mf.GetMetric()[0].GetGauge().GetValue()
			}
		}
	}
	for _, n := range names {
		if _, ok := out[n]; !ok {
			return nil, fmt.Errorf("gauge %s not found in the default registry", n)
		}
	}
	return out, nil
}

type c20Op struct {
	Kind    string `json:"kind"` // complete | start | continue | even-first | even-open | replay | badkey | eof-mid | eof | read-error | read-error-mid | write-fails | write-fails-open (injected transport faults)
	Session uint32 `json:"session"`
}

type c20Conn struct {
	Refused bool    `json:"refused"` // the secret provider refuses this remote address
	Ops     []c20Op `json:"ops"`
}

type c20Case struct {
	Conns []c20Conn `json:"conns"`
	// Burst: this many further connections are opened (half of them from an address that is refused at
	// admission) and, with everything still open, all end at the same moment, from goroutines of their own
	Burst int `json:"burst,omitempty"`
	// Bystander: a second server lives in the process for the whole case, with this many connections (each
	// with a session waiting) open on it from before the resting values are read until after the last
	// comparison: the gauges are process-wide, what the server under test does must move them by its own
	// share only
	Bystander int `json:"bystander,omitempty"`
}

func genC20(t *rapid.T) c20Case {
	var c c20Case
	n := rapid.IntRange(1, 6).Draw(t, "nconns")
	for i := 0; i < n; i++ {
		cc := c20Conn{Refused: rapid.IntRange(0, 6).Draw(t, "refused") == 0}
		nops := rapid.IntRange(0, 6).Draw(t, "nops")
		for j := 0; j < nops && !cc.Refused; j++ {
			op := c20Op{
				Kind:    rapid.SampledFrom([]string{"complete", "complete", "start", "start", "start", "continue", "continue", "even-first", "even-open", "replay", "badkey", "eof-mid", "eof", "read-error", "read-error-mid", "write-fails", "write-fails-open", "start-at-255", "complete-at-255", "continue-clear", "continue-clear"}).Draw(t, "kind"),
				Session: rapid.Uint32Range(1, 3).Draw(t, "session"),
			}
			cc.Ops = append(cc.Ops, op)
		}
		c.Conns = append(c.Conns, cc)
	}
	c.Burst = rapid.SampledFrom([]int{0, 0, 4, 8, 16, 24}).Draw(t, "burst")
	c.Bystander = rapid.SampledFrom([]int{0, 0, 0, 1, 3}).Draw(t, "bystander_connections")
	return c
}

// refusingSP refuses connections from 10.66.x.x and serves the rest.
type refusingSP struct{ staticSP }

func (s refusingSP) Get(ctx context.Context, remote net.Addr) ([]byte, tq.Handler, error) {
	if a, ok := remote.(*net.TCPAddr); ok && a.IP.To4() != nil && a.IP.To4()[1] == 66 {
		return nil, nil, fmt.Errorf("refused")
	}
	return s.staticSP.Get(ctx, remote)
}

func runC20(t failer, c c20Case) (abandoned, rejected int) {
	ev.Eval()
	journal("C20", c)
	fail := func(sig, format string, args ...interface{}) {
		violation(t, "C20", "gauges", "C20:"+sig, c, format, args...)
	}
	if c.Bystander > 0 {
		ev.Class("second-server-with-open-connections-in-the-process")
		var bh tq.HandlerFunc
		bh = func(resp tq.Response, req tq.Request) {
			resp.Next(bh)
			_, _ = resp.Reply(tq.NewAuthenReply(tq.SetAuthenReplyStatus(tq.AuthenStatusGetPass), tq.SetAuthenReplyServerMsg("m")))
		}
		by := startServer(nopLogger{}, staticSP{secret: []byte("b"), handler: bh})
		for k := 0; k < c.Bystander; k++ {
			bc, err := by.connect(&net.TCPAddr{IP: net.IPv4(10, 3, 0, byte(k+1)), Port: 7000 + k})
			if err != nil {
				t.Fatalf("%v", err)
			}
			bc.Feed(model.Frame([]byte("b"), model.Header{Version: 0xc0, Type: 1, Seq: 1, Session: uint32(900 + k)}, []byte{0, 0, 0, 0, 0}))
			if !bc.AwaitQuiescentOrClosed(watchdog) {
				t.Fatalf("HARNESS-BUG/INCONCLUSIVE: bystander connection wedged")
			}
		}
		defer func() {
			if e := by.stop(); e != nil {
				t.Fatalf("%v", e)
			}
		}()
	}
	base, err := readGauges(c20Gauges)
	if err != nil {
		t.Fatalf("HARNESS-BUG: %v", err)
	}
	check := func(when string, exact bool) {
		now, err := readGauges(c20Gauges)
		if err != nil {
			t.Fatalf("HARNESS-BUG: %v", err)
		}
		for _, g := range c20Gauges {
			d := now[g] - base[g]
			if d < 0 {
				fail(g+":below-rest", "%s: %s is %v below its resting value (%v -> %v)", when, g, -d, base[g], now[g])
			}
			if exact && d != 0 {
				fail(g+":not-back-to-rest", "%s: %s did not return to its resting value (%v -> %v)", when, g, base[g], now[g])
			}
		}
	}
	secret := []byte("k")
	// the handler continues a session iff the request's first body octet says so
	var h tq.HandlerFunc
	h = func(resp tq.Response, req tq.Request) {
		// replies are real authentication replies: a prompt (GETDATA, GETUSER or GETPASS by session id)
		// when the session goes on, PASS or FAIL when it ends
		st := tq.AuthenStatus(1 + req.Header.SessionID%2)
		if len(req.Body) > 4 && req.Body[4] == 1 {
			resp.Next(h)
			st = tq.AuthenStatus(3 + req.Header.SessionID%3)
		}
		_, _ = resp.Reply(tq.NewAuthenReply(tq.SetAuthenReplyStatus(st), tq.SetAuthenReplyServerMsg("m")))
	}
	srv := startServer(nopLogger{}, refusingSP{staticSP{secret: secret, handler: h}})
	type cstate struct {
		conn *transport.Conn
		d    *connDriver
		last map[uint32]int // session -> last seq sent by server (open sessions)
	}
	states := make([]*cstate, len(c.Conns))
	for i, cc := range c.Conns {
		ip := net.IPv4(10, 1, 0, byte(i+1))
		if cc.Refused {
			ip = net.IPv4(10, 66, 0, byte(i+1))
			rejected++
		}
		conn, err := srv.connect(&net.TCPAddr{IP: ip, Port: 4000 + i})
		if err != nil {
			t.Fatalf("%v", err)
		}
		states[i] = &cstate{conn: conn, d: &connDriver{c: conn}, last: map[uint32]int{}}
		if cc.Refused {
			if !conn.AwaitClosed(watchdog) {
				fail("refused-not-closed", "refused connection %d left open", i)
			}
			if out, _ := conn.Written(); len(out) != 0 {
				fail("refused-written", "bytes written to a refused connection")
			}
		}
	}
	check("after connecting", false)
	// interleave: round-robin over the connections' scripts
	maxOps := 0
	for _, cc := range c.Conns {
		if len(cc.Ops) > maxOps {
			maxOps = len(cc.Ops)
		}
	}
	pkt := func(seq int, session uint32, cont bool) []byte {
		body := []byte{0, 0, 0, 0, 0} // an empty CONTINUE; the flags octet tells the handler what to do
		if cont {
			body[4] = 1
		}
		return model.Frame(secret, model.Header{Version: 0xc0, Type: 1, Seq: byte(seq), Session: session}, body)
	}
	for j := 0; j < maxOps; j++ {
		for i, cc := range c.Conns {
			st := states[i]
			if j >= len(cc.Ops) || st.conn.Closed() {
				continue
			}
			op := cc.Ops[j]
			last, open := st.last[op.Session]
			var wire []byte
			switch op.Kind {
			case "complete":
				wire = pkt(last+1, op.Session, false)
				delete(st.last, op.Session)
			case "continue-clear":
				// the continuation of a session that was opened obfuscated arrives with the unencrypted flag
				// (and a clear body); whether the server goes on with it or ends the connection, the gauges
				// return to rest
				if !open || last+1 >= 253 {
					continue
				}
				wire = model.Frame(nil, model.Header{Version: 0xc0, Type: 1, Seq: byte(last + 1), Flags: model.FlagUnencrypted, Session: op.Session}, []byte{0, 0, 0, 0, 0})
				delete(st.last, op.Session)
				rejected++
			case "start", "continue":
				if op.Kind == "continue" && !open {
					continue
				}
				if last+1 >= 253 {
					continue
				}
				wire = pkt(last+1, op.Session, op.Kind == "start" || open)
				st.last[op.Session] = last + 2
				if op.Kind == "continue" {
					// finish the open session
					wire = pkt(last+1, op.Session, false)
					delete(st.last, op.Session)
				}
			case "even-first":
				wire = pkt(2, op.Session+100, false)
				rejected++
			case "even-open":
				if !open {
					continue
				}
				wire = pkt(last+2-last%2, op.Session, false) // the next even number on a waiting session
				rejected++
			case "replay":
				if !open {
					continue
				}
				wire = pkt(last-1, op.Session, false)
				rejected++
			case "badkey":
				wire = model.Frame(secret, model.Header{Version: 0xc0, Type: 1, Seq: 1, Session: op.Session + 200}, []byte{0xff, 0xff, 0xff, 0xff, 0xff, 0xff, 0xff, 0xff, 0xff})
				rejected++
			case "eof-mid":
				w := pkt(1, op.Session+300, false)
				st.conn.Feed(w[:7])
				st.conn.FeedEOF()
				rejected++
			case "eof":
				st.conn.FeedEOF()
			case "start-at-255", "complete-at-255":
				// the last client sequence number: the reply would be numbered 256 and cannot be sent;
				// with "start-" the handler nevertheless asks for a continuation
				wire = pkt(255, op.Session+600, op.Kind == "start-at-255")
				rejected++
			case "read-error":
				// the transport fails a read (connection reset) at a packet boundary
				st.conn.FeedError(syscall.ECONNRESET)
			case "read-error-mid":
				w := pkt(1, op.Session+400, false)
				st.conn.Feed(w[:14])
				st.conn.FeedError(syscall.ECONNRESET)
				rejected++
			case "write-fails", "write-fails-open":
				// the peer is gone by the time the reply is written: every later Write fails; with
				// "-open" the request asks for a continuation, so a session is open when that happens
				st.conn.FailWrites(syscall.EPIPE)
				wire = pkt(1, op.Session+500, op.Kind == "write-fails-open")
				rejected++
			}
			if wire != nil {
				st.conn.Feed(wire)
			}
			if !st.conn.AwaitQuiescentOrClosed(watchdog) {
				if err := deadlockVerdict(fmt.Sprintf("connection %d neither went back to reading nor was closed (its gauges can never return to rest)", i)); err != nil {
					t.Fatalf("%v", err)
				}
				t.Fatalf("HARNESS-BUG/INCONCLUSIVE: connection %d wedged", i)
			}
			check(fmt.Sprintf("after conn %d op %d (%s)", i, j, op.Kind), false)
		}
	}
	for _, st := range states {
		abandoned += len(st.last)
	}
	if c.Burst > 0 {
		ev.Class("burst-of-simultaneous-closes")
		var burst []*transport.Conn
		for k := 0; k < c.Burst; k++ {
			ip := net.IPv4(10, 2, 0, byte(k+1))
			if k%2 == 1 {
				ip = net.IPv4(10, 66, 1, byte(k+1))
			}
			bc, err := srv.connect(&net.TCPAddr{IP: ip, Port: 5000 + k})
			if err != nil {
				t.Fatalf("%v", err)
			}
			burst = append(burst, bc)
		}
		start := make(chan struct{})
		var wg sync.WaitGroup
		for _, bc := range burst {
			wg.Add(1)
			go func(bc *transport.Conn) {
				defer wg.Done()
				<-start
				bc.FeedEOF()
			}(bc)
		}
		for _, st := range states {
			if !st.conn.Closed() {
				wg.Add(1)
				go func(cn *transport.Conn) {
					defer wg.Done()
					<-start
					cn.FeedEOF()
				}(st.conn)
			}
		}
		close(start)
		wg.Wait()
		for _, bc := range burst {
			if !bc.AwaitClosed(watchdog) {
				t.Fatalf("HARNESS-BUG/INCONCLUSIVE: a connection of the burst was not closed after EOF")
			}
		}
	}
	// shutdown with whatever is still open: reads time out
	srv.cancel()
	srv.ln.Kick()
	for _, st := range states {
		if !st.conn.Closed() {
			st.conn.ExpireDeadline()
		}
	}
	select {
	case <-srv.done:
	case <-timeAfter(watchdog):
		t.Fatalf("HARNESS-BUG/INCONCLUSIVE: Serve did not return")
	}
	check("after Serve returned", true)
	return abandoned, rejected
}

func classifyC20(c c20Case, abandoned, rejected int) {
	for _, cc := range c.Conns {
		if cc.Refused {
			ev.Class("conn:refused-at-admission")
		}
		for _, op := range cc.Ops {
			ev.Class("op:" + op.Kind)
		}
	}
	if abandoned > 0 {
		ev.Class("abandoned-session")
	}
	if abandoned > 0 || rejected > 0 {
		ev.NonTrivial("c20", c)
	}
}

func TestC20(t *testing.T) {
	rapid.Check(t, func(rt *rapid.T) {
		c := genC20(rt)
		a, r := runC20(rt, c)
		classifyC20(c, a, r)
	})
}

func TestC20Enum(t *testing.T) {
	kinds := []string{"complete", "start", "continue", "even-first", "even-open", "replay", "badkey", "eof-mid", "eof"}
	for _, k1 := range kinds {
		for _, k2 := range kinds {
			c := c20Case{Conns: []c20Conn{{Ops: []c20Op{{Kind: "start", Session: 1}, {Kind: k1, Session: 1}, {Kind: k2, Session: 2}}}, {Ops: []c20Op{{Kind: k2, Session: 1}, {Kind: k1, Session: 1}}}, {Refused: true}}}
			a, r := runC20(t, c)
			classifyC20(c, a, r)
		}
	}
}

// TestC20EnumBurst: many bursts of connections that all end at the same moment (half of them refused at
// admission), on a transport without any harness-side lock (net.Pipe pairs behind a channel listener),
// each burst on a server of its own that is shut down before the gauges are read.  An increment and a
// decrement that are not one atomic step each show up here, if the scheduler obliges; the number of bursts
// follows the case count of the tier.
func TestC20EnumBurst(t *testing.T) {
	n := 1500
	if f := flag.Lookup("rapid.checks"); f != nil {
		if k, err := strconv.Atoi(f.Value.String()); err == nil && k > 0 {
			n = k
		}
	}
	if n > 40000 {
		n = 40000
	}
	for i := 0; i < n; i++ {
		runC20Burst(t, 8+8*(i%3))
	}
	ev.Class("burst-stress-runs")
}

func runC20Burst(t failer, size int) {
	ev.Eval()
	cse := map[string]int{"burst": size}
	base, err := readGauges(c20Gauges)
	if err != nil {
		t.Fatalf("HARNESS-BUG: %v", err)
	}
	h := tq.HandlerFunc(func(resp tq.Response, req tq.Request) { _, _ = resp.Reply(rawED{[]byte{0, 0, 0, 0, 0, 0}}) })
	ln := newPipeListener()
	srv := tq.NewServer(nopLogger{}, refusingSP{staticSP{secret: []byte("k"), handler: h}})
	ctx, cancel := context.WithCancel(context.Background())
	done := make(chan struct{})
	go func() { _ = srv.Serve(ctx, ln); close(done) }()
	var conns []net.Conn
	for k := 0; k < size; k++ {
		ip := net.IPv4(10, 2, 0, byte(k+1))
		if k%2 == 1 {
			ip = net.IPv4(10, 66, 1, byte(k+1))
		}
		c, err := ln.dial(ip, 5000+k)
		if err != nil {
			t.Fatalf("%v", err)
		}
		conns = append(conns, c)
	}
	start := make(chan struct{})
	var wg sync.WaitGroup
	for _, c := range conns {
		wg.Add(1)
		go func(c net.Conn) {
			defer wg.Done()
			<-start
			c.Close()
		}(c)
	}
	close(start)
	wg.Wait()
	cancel()
	ln.kick <- struct{}{}
	select {
	case <-done:
	case <-timeAfter(watchdog):
		t.Fatalf("HARNESS-BUG/INCONCLUSIVE: Serve did not return after a burst")
	}
	now, err := readGauges(c20Gauges)
	if err != nil {
		t.Fatalf("HARNESS-BUG: %v", err)
	}
	for _, g := range c20Gauges {
		if now[g] != base[g] {
			sig := g + ":not-back-to-rest"
			if now[g] < base[g] {
				sig = g + ":below-rest"
			}
			violation(t, "C20", "gauges", "C20:"+sig, cse, "after a burst of %d connections that ended at the same moment and after Serve returned, %s is %v (resting value %v)", size, g, now[g], base[g])
		}
	}
}

func TestC20Regress(t *testing.T) {
	for _, s := range loadSaved(t, "C20") {
		var c c20Case
		mustUnmarshal(t, s, &c)
		runC20(t, c)
	}
}

// TestC20EnumScale: thousands of sessions left waiting on one connection, which then ends (EOF, or the
// shutdown with the sessions still open), next to a second connection with a little ordinary traffic.
func TestC20EnumScale(t *testing.T) {
	n := scaleN()
	for _, end := range []string{"eof", "read-error", ""} {
		var big c20Conn
		for i := 0; i < n; i++ {
			big.Ops = append(big.Ops, c20Op{Kind: "start", Session: uint32(1000 + i)})
		}
		for _, i := range []int{0, 255, 256, 1023, 1024, 4095, 4096, n - 1} {
			if i < n {
				big.Ops = append(big.Ops, c20Op{Kind: "continue", Session: uint32(1000 + i)})
			}
		}
		big.Ops = append(big.Ops, c20Op{Kind: "complete", Session: 7})
		if end != "" {
			big.Ops = append(big.Ops, c20Op{Kind: end})
		}
		c := c20Case{Conns: []c20Conn{big, {Ops: []c20Op{{Kind: "start", Session: 1}, {Kind: "complete", Session: 2}, {Kind: "continue", Session: 1}}}}}
		a, r := runC20(t, c)
		classifyC20(c, a, r)
		ev.Class(fmt.Sprintf("scale:%d-sessions-waiting-on-one-connection", n))
	}
}
