// Package transport provides a scripted net.Conn and DeadlineListener whose delivery schedule is
// owned by the harness: what each Read returns, when a read times out, when the peer closes, and in
// which order connections are accepted are all decided by the test, and every call is recorded in a
// globally stamped event log.
package transport

import (
	"errors"
	"fmt"
	"io"
	"net"
	"os"
	"sync"
	"sync/atomic"
	"time"
)

// EventKind names what happened.
type EventKind string

const (
	EvAccept      EventKind = "accept"
	EvReadBegin   EventKind = "read-begin"
	EvReadEnd     EventKind = "read-end"
	EvWrite       EventKind = "write"
	EvSetDeadline EventKind = "set-deadline"
	EvClose       EventKind = "close"
	EvHandlerIn   EventKind = "handler-begin"
	EvHandlerOut  EventKind = "handler-end"
	EvServeReturn EventKind = "serve-return"
	EvLnClose     EventKind = "listener-close"
	EvLnDeadline  EventKind = "listener-set-deadline"
	EvCancel      EventKind = "cancel"
	EvNote        EventKind = "note"
)

// Event is one entry of the global log.
type Event struct {
	Stamp int64     `json:"stamp"`
	Kind  EventKind `json:"kind"`
	Conn  int       `json:"conn"` // connection number, -1 for none
	N     int       `json:"n,omitempty"`
	Err   string    `json:"err,omitempty"`
	Info  string    `json:"info,omitempty"`
}

// Log is a stamped event log shared by a listener, its connections and the handlers of one case.
type Log struct {
	mu     sync.Mutex
	stamp  int64
	events []Event
	muted  bool
}

// SetMuted stops (or resumes) recording events; stamps keep advancing.  Used around measurements
// that must not see the harness' own allocations.
func (l *Log) SetMuted(m bool) { l.mu.Lock(); l.muted = m; l.mu.Unlock() }

func NewLog() *Log { return &Log{} }

// Add appends an event and returns its stamp.
func (l *Log) Add(kind EventKind, conn, n int, err error, info string) int64 {
	l.mu.Lock()
	defer l.mu.Unlock()
	l.stamp++
	if l.muted {
		return l.stamp
	}
	e := Event{Stamp: l.stamp, Kind: kind, Conn: conn, N: n, Info: info}
	if err != nil {
		e.Err = err.Error()
	}
	l.events = append(l.events, e)
	return l.stamp
}

// Events returns a copy of the log.
func (l *Log) Events() []Event {
	l.mu.Lock()
	defer l.mu.Unlock()
	return append([]Event{}, l.events...)
}

// timeoutErr is what a real connection returns when a deadline expires.
type timeoutErr struct{}

func (timeoutErr) Error() string   { return "i/o timeout" }
func (timeoutErr) Timeout() bool   { return true }
func (timeoutErr) Temporary() bool { return true }

// ErrTimeout mirrors os.ErrDeadlineExceeded's behaviour as a net.Error.
var ErrTimeout net.Error = timeoutErr{}

var _ = os.ErrDeadlineExceeded

// Write is one recorded write.
type Write struct {
	Stamp int64
	Data  []byte
}

// Conn is a scripted connection (the server's end).
type Conn struct {
	ID  int
	log *Log

	mu       sync.Mutex
	cond     *sync.Cond
	in       [][]byte // chunks still to be delivered, one per Read at most
	eof      bool     // deliver EOF once the chunks are drained
	timeouts int      // pending injected timeouts (delivered once the chunks are drained)
	rerr     error    // deliver this error once the chunks are drained
	closed   bool     // closed by the server side
	parked   bool     // a Read is blocked with nothing to deliver
	reads    int      // number of Read calls begun
	out      []Write
	flat     []byte // everything written so far, in one piece
	werr     error  // fail writes with this error
	hasWDL   bool   // a non-zero write deadline is armed (SetDeadline or SetWriteDeadline)
	lateW    bool   // the harness' clock says: by the time of the next Write any armed write deadline has passed
	wblock   bool   // the peer does not read: a Write blocks until the harness lets go or the connection is closed
	deadline time.Time
	hasDL    bool // a non-zero read deadline is armed
	dlCalls  int
	// unarmedStall is set when a Read parked while no non-zero deadline was armed: on a real
	// socket that read could block forever
	unarmedStall bool

	remote, local net.Addr
}

// NewConn makes a connection with the given remote address.
func NewConn(id int, log *Log, remote net.Addr) *Conn {
	c := &Conn{ID: id, log: log, remote: remote, local: &net.TCPAddr{IP: net.IPv4(127, 0, 0, 1), Port: 49}}
	c.cond = sync.NewCond(&c.mu)
	return c
}

// ---- harness side ----

// Feed queues chunks; each is returned by one Read (or several, if the reader's buffer is smaller).
func (c *Conn) Feed(chunks ...[]byte) {
	c.mu.Lock()
	for _, ch := range chunks {
		if len(ch) > 0 {
			c.in = append(c.in, append([]byte{}, ch...))
		}
	}
	c.cond.Broadcast()
	c.mu.Unlock()
}

// FeedEOF makes Read return io.EOF once everything queued has been delivered (the peer closed).
func (c *Conn) FeedEOF() {
	c.mu.Lock()
	c.eof = true
	c.cond.Broadcast()
	c.mu.Unlock()
}

// FeedError makes Read return err once everything queued has been delivered.
func (c *Conn) FeedError(err error) {
	c.mu.Lock()
	c.rerr = err
	c.cond.Broadcast()
	c.mu.Unlock()
}

// ExpireDeadline makes the pending (or next) drained Read fail with a timeout, as an expired read
// deadline would.  If no non-zero deadline is armed at that moment the read stays blocked (as it
// would on a real socket) and UnarmedStall reports true.
func (c *Conn) ExpireDeadline() {
	c.mu.Lock()
	c.timeouts++
	c.cond.Broadcast()
	c.mu.Unlock()
}

// FailWrites makes every later Write fail.
func (c *Conn) FailWrites(err error) {
	c.mu.Lock()
	c.werr = err
	c.mu.Unlock()
}

// Quiescent reports whether the server is parked in Read with nothing left to deliver.
func (c *Conn) quiescentLocked() bool {
	return c.parked && len(c.in) == 0 && !c.eof && c.rerr == nil && (c.timeouts == 0 || !c.hasDL)
}

// AwaitQuiescentOrClosed blocks until the server has consumed everything fed so far and is blocked
// in Read again, or has closed the connection.  It returns false on watchdog expiry.
func (c *Conn) AwaitQuiescentOrClosed(d time.Duration) bool {
	deadline := time.Now().Add(d)
	c.mu.Lock()
	defer c.mu.Unlock()
	for !(c.closed || c.quiescentLocked()) {
		if !waitUntil(c.cond, deadline) {
			return c.closed || c.quiescentLocked()
		}
	}
	return true
}

// AwaitClosed blocks until the server closed the connection.
func (c *Conn) AwaitClosed(d time.Duration) bool {
	deadline := time.Now().Add(d)
	c.mu.Lock()
	defer c.mu.Unlock()
	for !c.closed {
		if !waitUntil(c.cond, deadline) {
			return c.closed
		}
	}
	return true
}

// waitUntil waits on cond, waking at the latest at deadline; false once the deadline has passed.
func waitUntil(cond *sync.Cond, deadline time.Time) bool {
	if !time.Now().Before(deadline) {
		return false
	}
	t := time.AfterFunc(time.Until(deadline), func() {
		cond.L.Lock()
		cond.Broadcast()
		cond.L.Unlock()
	})
	cond.Wait()
	t.Stop()
	return true // callers loop and re-check their condition; the next call fails once past the deadline
}

// Closed reports whether the server side closed the connection.
func (c *Conn) Closed() bool { c.mu.Lock(); defer c.mu.Unlock(); return c.closed }

// Parked reports whether a read is blocked right now.
func (c *Conn) Parked() bool { c.mu.Lock(); defer c.mu.Unlock(); return c.parked }

// UnarmedStall reports whether a Read ever parked without a non-zero read deadline armed.
func (c *Conn) UnarmedStall() bool { c.mu.Lock(); defer c.mu.Unlock(); return c.unarmedStall }

// Reads returns how many Read calls were begun.
func (c *Conn) Reads() int { c.mu.Lock(); defer c.mu.Unlock(); return c.reads }

// Pending returns how many fed bytes were not consumed.
func (c *Conn) Pending() int {
	c.mu.Lock()
	defer c.mu.Unlock()
	n := 0
	for _, ch := range c.in {
		n += len(ch)
	}
	return n
}

// Writes returns a copy of the recorded writes.
func (c *Conn) Writes() []Write {
	c.mu.Lock()
	defer c.mu.Unlock()
	return append([]Write{}, c.out...)
}

// Written returns all bytes written so far, concatenated, and the number of writes.
func (c *Conn) Written() ([]byte, int) {
	c.mu.Lock()
	defer c.mu.Unlock()
	// flat is appended to on every Write and never rewritten below its length, so handing out the slice
	// up to the current length (capacity clipped) is safe; callers do not modify it
	return c.flat[:len(c.flat):len(c.flat)], len(c.out)
}

// ---- net.Conn ----

func (c *Conn) Read(p []byte) (int, error) {
	c.mu.Lock()
	c.reads++
	c.mu.Unlock()
	c.log.Add(EvReadBegin, c.ID, len(p), nil, "")
	c.mu.Lock()
	for {
		if c.closed {
			c.mu.Unlock()
			c.log.Add(EvReadEnd, c.ID, 0, net.ErrClosed, "")
			return 0, net.ErrClosed
		}
		if len(c.in) > 0 {
			if len(p) == 0 {
				c.mu.Unlock()
				return 0, nil
			}
			n := copy(p, c.in[0])
			if n == len(c.in[0]) {
				c.in = c.in[1:]
			} else {
				c.in[0] = c.in[0][n:]
			}
			c.parked = false
			c.mu.Unlock()
			c.log.Add(EvReadEnd, c.ID, n, nil, "")
			return n, nil
		}
		if c.rerr != nil {
			err := c.rerr
			c.mu.Unlock()
			c.log.Add(EvReadEnd, c.ID, 0, err, "")
			return 0, err
		}
		if c.eof {
			c.mu.Unlock()
			c.log.Add(EvReadEnd, c.ID, 0, io.EOF, "")
			return 0, io.EOF
		}
		if c.timeouts > 0 && c.hasDL {
			c.timeouts--
			c.parked = false
			c.mu.Unlock()
			c.log.Add(EvReadEnd, c.ID, 0, ErrTimeout, "deadline expired (injected)")
			return 0, ErrTimeout
		}
		if !c.hasDL {
			c.unarmedStall = true
		}
		c.parked = true
		c.cond.Broadcast()
		c.cond.Wait()
	}
}

// BlockWrites makes every Write block (a peer that does not read while its socket buffers are full) until
// it is switched off again or the connection is closed.
func (c *Conn) BlockWrites(on bool) {
	c.mu.Lock()
	c.wblock = on
	c.cond.Broadcast()
	c.mu.Unlock()
}

func (c *Conn) Write(p []byte) (int, error) {
	c.mu.Lock()
	if c.wblock && !c.closed {
		c.mu.Unlock()
		c.log.Add(EvNote, c.ID, len(p), nil, "write-blocked")
		c.mu.Lock()
		for c.wblock && !c.closed {
			c.cond.Wait()
		}
	}
	if c.closed {
		c.mu.Unlock()
		c.log.Add(EvWrite, c.ID, 0, net.ErrClosed, "")
		return 0, net.ErrClosed
	}
	if c.werr != nil {
		err := c.werr
		c.mu.Unlock()
		c.log.Add(EvWrite, c.ID, 0, err, "")
		return 0, err
	}
	if c.lateW && c.hasWDL {
		c.mu.Unlock()
		c.log.Add(EvWrite, c.ID, 0, ErrTimeout, "write deadline passed")
		return 0, ErrTimeout
	}
	c.mu.Unlock()
	st := c.log.Add(EvWrite, c.ID, len(p), nil, "")
	c.mu.Lock()
	c.out = append(c.out, Write{Stamp: st, Data: append([]byte{}, p...)})
	c.flat = append(c.flat, p...)
	c.cond.Broadcast()
	c.mu.Unlock()
	return len(p), nil
}

func (c *Conn) Close() error {
	c.log.Add(EvClose, c.ID, 0, nil, "")
	c.mu.Lock()
	already := c.closed
	c.closed = true
	c.parked = false
	c.cond.Broadcast()
	c.mu.Unlock()
	if already {
		return net.ErrClosed
	}
	return nil
}

// CloseWrite and CloseRead are what a *net.TCPConn offers beyond net.Conn (a half-close); code that looks
// for them with a type assertion finds them here as it would on a real socket.
func (c *Conn) CloseWrite() error {
	c.log.Add(EvNote, c.ID, 0, nil, "close-write")
	c.mu.Lock()
	defer c.mu.Unlock()
	if c.closed {
		return net.ErrClosed
	}
	if c.werr == nil {
		c.werr = errHalfClosed
	}
	return nil
}

func (c *Conn) CloseRead() error {
	c.log.Add(EvNote, c.ID, 0, nil, "close-read")
	c.mu.Lock()
	defer c.mu.Unlock()
	if c.closed {
		return net.ErrClosed
	}
	c.in, c.eof = nil, true
	c.cond.Broadcast()
	return nil
}

var errHalfClosed = errors.New("write on a connection whose write side was shut down")

func (c *Conn) LocalAddr() net.Addr  { return c.local }
func (c *Conn) RemoteAddr() net.Addr { return c.remote }

func (c *Conn) setDL(kind string, t time.Time) error {
	info := kind + " zero"
	if !t.IsZero() {
		d := time.Until(t)
		info = fmt.Sprintf("%s +%dms", kind, d.Milliseconds())
	}
	c.log.Add(EvSetDeadline, c.ID, 0, nil, info)
	c.mu.Lock()
	if kind != "w" {
		c.deadline = t
		c.hasDL = !t.IsZero() && time.Until(t) > 0
		c.dlCalls++
	}
	if kind != "r" {
		c.hasWDL = !t.IsZero()
	}
	c.cond.Broadcast()
	c.mu.Unlock()
	return nil
}

func (c *Conn) SetDeadline(t time.Time) error      { return c.setDL("rw", t) }
func (c *Conn) SetReadDeadline(t time.Time) error  { return c.setDL("r", t) }
func (c *Conn) SetWriteDeadline(t time.Time) error { return c.setDL("w", t) }

// LateWrites tells the connection that the harness' clock has moved on: from now on a Write finds any
// armed write deadline expired (a handler that took long, a request that arrived late in the read
// window).  A connection on which no write deadline is armed is not affected.
func (c *Conn) LateWrites(on bool) {
	c.mu.Lock()
	c.lateW = on
	c.mu.Unlock()
}

// ---- listener ----

// Listener is a scripted DeadlineListener.
type Listener struct {
	log *Log

	mu      sync.Mutex
	cond    *sync.Cond
	queue   []net.Conn
	kicks   int // pending temporary (timeout) errors to return from Accept
	errs    []error
	closed  bool
	parked  bool
	accepts int
	// BeforeReturn, when set, runs inside Accept just before a connection is handed out (owned
	// schedule: "cancel inside Accept").
	BeforeReturn func(c net.Conn)
}

func NewListener(log *Log) *Listener {
	l := &Listener{log: log}
	l.cond = sync.NewCond(&l.mu)
	return l
}

// Offer queues a connection to be accepted.
func (l *Listener) Offer(c net.Conn) {
	l.mu.Lock()
	l.queue = append(l.queue, c)
	l.cond.Broadcast()
	l.mu.Unlock()
}

// Kick makes a blocked (or the next) Accept return a temporary timeout error, as an expired listener
// deadline would.
func (l *Listener) Kick() {
	l.mu.Lock()
	l.kicks++
	l.cond.Broadcast()
	l.mu.Unlock()
}

// FailAccept makes the next Accept return err (not wrapped).
func (l *Listener) FailAccept(err error) {
	l.mu.Lock()
	l.errs = append(l.errs, err)
	l.cond.Broadcast()
	l.mu.Unlock()
}

// AwaitParked blocks until Accept is blocked with nothing to hand out.
func (l *Listener) AwaitParked(d time.Duration) bool {
	deadline := time.Now().Add(d)
	l.mu.Lock()
	defer l.mu.Unlock()
	for !(l.parked && len(l.queue) == 0 && l.kicks == 0 && len(l.errs) == 0) && !l.closed {
		if !waitUntil(l.cond, deadline) {
			return false
		}
	}
	return true
}

func (l *Listener) Accept() (net.Conn, error) {
	l.mu.Lock()
	for {
		if l.closed {
			l.mu.Unlock()
			return nil, &net.OpError{Op: "accept", Net: "tcp", Err: net.ErrClosed}
		}
		if len(l.errs) > 0 {
			err := l.errs[0]
			l.errs = l.errs[1:]
			l.parked = false
			l.mu.Unlock()
			return nil, err
		}
		if len(l.queue) > 0 {
			c := l.queue[0]
			l.queue = l.queue[1:]
			l.parked = false
			l.accepts++
			hook := l.BeforeReturn
			l.mu.Unlock()
			id := -1
			if sc, ok := c.(*Conn); ok {
				id = sc.ID
			}
			l.log.Add(EvAccept, id, 0, nil, "")
			if hook != nil {
				hook(c)
			}
			return c, nil
		}
		if l.kicks > 0 {
			l.kicks--
			l.parked = false
			l.mu.Unlock()
			return nil, &net.OpError{Op: "accept", Net: "tcp", Err: ErrTimeout}
		}
		l.parked = true
		l.cond.Broadcast()
		l.cond.Wait()
	}
}

func (l *Listener) Close() error {
	l.log.Add(EvLnClose, -1, 0, nil, "")
	l.mu.Lock()
	already := l.closed
	l.closed = true
	l.cond.Broadcast()
	l.mu.Unlock()
	if already {
		return errors.New("listener already closed")
	}
	return nil
}

func (l *Listener) Addr() net.Addr { return &net.TCPAddr{IP: net.IPv4(127, 0, 0, 1), Port: 49} }

func (l *Listener) SetDeadline(t time.Time) error {
	l.log.Add(EvLnDeadline, -1, 0, nil, "")
	return nil
}

// Closed reports whether the listener was closed.
func (l *Listener) Closed() bool { l.mu.Lock(); defer l.mu.Unlock(); return l.closed }

var connIDs int64

// NextID hands out process-unique connection numbers.
func NextID() int { return int(atomic.AddInt64(&connIDs, 1)) }
