package harness

import (
	"verif/harness/model"

	"pgregory.net/rapid"
)

// Generators shared by the codec properties.  Field contents are produced from a handful of draws
// (a short tile repeated to the wanted length, with independently drawn first and last octets) so
// that 64 KiB fields stay cheap to generate and to shrink, while neighbouring fields still differ
// in content (an offset or ordering mistake changes what ends up in which field).

type alphabet int

const (
	alphaASCII alphabet = iota // 0x00..0x7f (what the library's text validation accepts)
	alphaPrint                 // 0x20..0x7e
	alphaAny                   // 0x00..0xff
)

func genByteIn(a alphabet) *rapid.Generator[byte] {
	switch a {
	case alphaASCII:
		return rapid.ByteRange(0, 0x7f)
	case alphaPrint:
		return rapid.ByteRange(0x20, 0x7e)
	}
	return rapid.Byte()
}

func genBytes(t *rapid.T, label string, n int, a alphabet) model.B {
	out := make([]byte, n)
	if n == 0 {
		return out
	}
	tile := rapid.SliceOfN(genByteIn(a), 1, 5).Draw(t, label+"_tile")
	for i := range out {
		out[i] = tile[i%len(tile)]
	}
	out[0] = genByteIn(a).Draw(t, label+"_first")
	out[n-1] = genByteIn(a).Draw(t, label+"_last")
	return out
}

// meaningfulText: text that means something to somebody - addresses in spellings that are legal but not
// canonical, names in mixed case, numbers with leading zeroes, padded and quoted text, format verbs.  The
// protocol carries all of it as opaque octets; code that "tidies" a field changes one of these.
var meaningfulText = []string{
	"2001:DB8::1", "2001:db8:0:0:0:0:0:1", "2001:0db8::0001", "2001:db8::1", "FE80::1%eth0", "fe80::1%ETH0", "::ffff:10.1.2.3", "::FFFF:0A01:0203",
	"0:0:0:0:0:0:0:1", "::1", "[2001:db8::1]:49", "010.001.002.003", "10.1.2.3", "10.1.2.3:49", " 10.1.2.3", "10.1.2.3 ", "10.1.2.3/32", "0x0a.1.2.3",
	"Router-1.Example.COM", "router-1.example.com.", "tty0", "TTY0", "Async12", "vty 0", "console", "0", "00", "007", "+1", "-0", "1e3", "0x10", "1.50",
	"true", "TRUE", "null", "nil", "Admin", "admin ", " admin", "ADMIN@EXAMPLE.COM", "user%40example.com", "DOMAIN\\user", "a\tb", "line\r\n", "line\n",
	"%s%d%v", "%!s(MISSING)", "..", "../x", "~", "\"quoted\"", "'quoted'", "<b>", "&amp;", "a,b", "a;b", "a=b", "a*b", "=", "*", "\x00", "caf\u00e9",
}

// field draws the content of a text field with a one or two octet length: generated octets of a drawn
// length, or (one time in six) a piece of meaningful text.
func field(t *rapid.T, label string, lenOctets int, a alphabet) model.B {
	if rapid.IntRange(0, 5).Draw(t, label+"_kind") == 0 {
		v := rapid.SampledFrom(meaningfulText).Draw(t, label+"_text")
		if a != alphaAny {
			for i := 0; i < len(v); i++ {
				if v[i] > 0x7f {
					return model.B("cafe")
				}
			}
		}
		return model.B(v)
	}
	if lenOctets == 2 {
		return genBytes(t, label, len2(t, label+"_len"), a)
	}
	return genBytes(t, label, len1(t, label+"_len"), a)
}

// len1 draws a length for a field with a one octet length.
func len1(t *rapid.T, label string) int {
	return rapid.OneOf(
		rapid.IntRange(0, 12),
		rapid.SampledFrom([]int{0, 1, 2, 127, 128, 254, 255}),
		rapid.IntRange(0, 255),
	).Draw(t, label)
}

// len2 draws a length for a field with a two octet length.
func len2(t *rapid.T, label string) int {
	return rapid.OneOf(
		rapid.IntRange(0, 12),
		rapid.IntRange(0, 12),
		rapid.SampledFrom([]int{0, 1, 255, 256, 257, 511, 512, 4095, 4096, 32767, 32768, 65534, 65535}),
		rapid.IntRange(0, 700),
	).Draw(t, label)
}

func argCount(t *rapid.T, label string) int {
	return rapid.OneOf(
		rapid.IntRange(0, 5),
		rapid.IntRange(0, 5),
		rapid.SampledFrom([]int{0, 1, 2, 16, 127, 128, 254, 255}),
	).Draw(t, label)
}

func genArgs(t *rapid.T, label string, minLen int) []model.B {
	n := argCount(t, label+"_cnt")
	args := make([]model.B, n)
	// many arguments: draw one length pattern instead of n draws
	if n > 8 {
		base := rapid.IntRange(minLen, 40).Draw(t, label+"_len")
		big := rapid.SampledFrom([]int{-1, 0, n / 2, n - 1}).Draw(t, label+"_bigidx")
		tile := rapid.SliceOfN(genByteIn(alphaASCII), 1, 4).Draw(t, label+"_tile")
		// sparse: every argument as short as allowed (many arguments, little text)
		mode := rapid.IntRange(0, 5).Draw(t, label+"_sparse")
		sparse := mode < 2
		for i := range args {
			l := minLen + (base+i)%7
			if sparse {
				l = minLen
			}
			if mode == 5 {
				l = 255 // as much text as the layout can carry: bodies beyond 65536 octets
			}
			if i == big {
				l = 255
				if sparse {
					l = minLen + base%3
				}
			}
			b := make([]byte, l)
			for j := range b {
				b[j] = tile[(i+j)%len(tile)]
			}
			args[i] = b
		}
		return args
	}
	for i := range args {
		if rapid.IntRange(0, 7).Draw(t, label+"_kind") == 0 {
			args[i] = model.B(rapid.SampledFrom(meaningfulArgs).Draw(t, label+"_text"))
			continue
		}
		l := rapid.OneOf(rapid.IntRange(minLen, 24), rapid.SampledFrom([]int{minLen, minLen + 1, 254, 255})).Draw(t, label+"_len")
		args[i] = genBytes(t, label+"_arg", l, alphaASCII)
	}
	return args
}

// meaningfulArgs: attribute-value pairs whose values have a canonical form somewhere (addresses, numbers,
// times, booleans), written differently.
var meaningfulArgs = []string{
	"addr=2001:DB8::1", "addr=2001:db8:0:0:0:0:0:1", "addr*010.001.002.003", "priv-lvl=015", "priv-lvl= 15", "priv-lvl=+15", "timeout=0060", "idletime=1e2",
	"start_time=0123456789", "timezone=utc", "timezone=UTC ", "elapsed_time=00", "task_id=0007", "service=Shell", "service=shell ", "Service=shell", "cmd=Show",
	"cmd=show ", "cmd-arg=<CR>", "cmd-arg=<cr>", "cmd-arg= version", "protocol=IP", "acl=#101", "noescape=TRUE", "autocmd=", "autocmd*", "callback-dialstring=+1 (555) 01",
	"a==b", "a=*b", "a*=b", "a= b ", "==", "**", "=*", "*=", "route=10.0.0.0/08 10.1.1.1", "zonelist=a,b,,c", "bytes_in=18446744073709551616",
}

// rfcAttrNames: the attributes RFC 8907 section 8 defines for authorization and accounting; rfcAttrValues:
// what a device may report in a numeric one, including the edges of every integer width, zero, signs and text.
var rfcAttrNames = []string{"task_id", "start_time", "stop_time", "elapsed_time", "timezone", "event", "reason", "bytes", "bytes_in", "bytes_out",
	"paks", "paks_in", "paks_out", "err_msg", "service", "protocol", "cmd", "cmd-arg", "acl", "inacl", "outacl", "addr", "addr-pool", "timeout",
	"idletime", "autocmd", "noescape", "nohangup", "priv-lvl"}
var rfcAttrValues = []string{"0", "0", "0", "0", "1", "7", "-1", "00", "60", "255", "256", "65535", "65536", "2147483647", "2147483648", "4294967295", "4294967296",
	"9223372036854775807", "9223372036854775808", "-9223372036854775808", "18446744073709551615", "18446744073709551616", "", "x", "1.5", "1e9",
	"0x10", " 1", "1 ", "+1", "NaN", "true"}

// genAttrArgs draws n attribute-value pairs of the standard attributes (names may repeat); half of the time
// they are preceded by what a stop record carries: task id, elapsed time and the traffic counters.
func genAttrArgs(t *rapid.T, label string, n int) []model.B {
	var out []model.B
	if rapid.Bool().Draw(t, label+"_stop_record") {
		for _, name := range []string{"task_id", "elapsed_time", "bytes_in", "bytes_out", "paks_in", "paks_out"} {
			if rapid.IntRange(0, 3).Draw(t, label+"_has_"+name) != 0 {
				out = append(out, model.B(name+"="+rapid.SampledFrom(rfcAttrValues).Draw(t, label+"_"+name)))
			}
		}
	}
	for i := 0; i < n; i++ {
		out = append(out, model.B(rapid.SampledFrom(rfcAttrNames).Draw(t, label+"_name")+rapid.SampledFrom([]string{"=", "=", "*"}).Draw(t, label+"_sep")+rapid.SampledFrom(rfcAttrValues).Draw(t, label+"_value")))
	}
	return out
}

var (
	authenActions  = []byte{1, 2, 4}
	authenTypes    = []byte{1, 2, 3, 4, 5, 6}    // START: NotSet (0) is refused
	authenTypes0   = []byte{0, 1, 2, 3, 4, 5, 6} // author/acct
	authenServices = []byte{0, 1, 2, 3, 4, 5, 6, 7, 8, 9}
	authenStatuses = []byte{1, 2, 3, 4, 5, 6, 7}
	authenMethods  = []byte{0, 1, 2, 3, 4, 5, 6, 8, 0x10}
	authorStatuses = []byte{1, 2, 0x10, 0x11}
	acctStatuses   = []byte{1, 2}
)

func genAcctFlags(t *rapid.T) byte {
	f := rapid.Byte().Draw(t, "acct_flags")
	if f&0x04 != 0 && f&0x08 != 0 { // stop+watchdog is refused by the library: clear one of them
		if rapid.Bool().Draw(t, "keep_stop") {
			f &^= 0x08
		} else {
			f &^= 0x04
		}
	}
	return f
}

func genHeader(t *rapid.T) model.Header {
	return model.Header{
		Version: 0xc0 | rapid.SampledFrom([]byte{0, 1}).Draw(t, "minor"),
		Type:    rapid.SampledFrom([]byte{1, 2, 3}).Draw(t, "type"),
		Seq:     rapid.OneOf(rapid.SampledFrom([]byte{1, 2, 3, 254, 255}), rapid.ByteRange(1, 255)).Draw(t, "seq"),
		Flags:   rapid.Byte().Draw(t, "flags"),
		Session: genSession(t),
		Length:  rapid.OneOf(rapid.SampledFrom([]uint32{0, 1, 255, 256, 65535, 65536}), rapid.Uint32Range(0, 65536)).Draw(t, "length"),
	}
}

func genSession(t *rapid.T) uint32 {
	return rapid.OneOf(rapid.SampledFrom([]uint32{0, 1, 0xff, 0x100, 0x7fffffff, 0x80000000, 0xffffffff, 0x01020304}), rapid.Uint32()).Draw(t, "session")
}

func genAuthenStart(t *rapid.T) model.AuthenStart {
	a := model.AuthenStart{
		Action:  rapid.SampledFrom(authenActions).Draw(t, "action"),
		Priv:    rapid.ByteRange(0, 15).Draw(t, "priv"),
		AType:   rapid.SampledFrom(authenTypes).Draw(t, "atype"),
		Service: rapid.SampledFrom(authenServices).Draw(t, "service"),
	}
	a.User = field(t, "user", 1, alphaASCII)
	a.Port = field(t, "port", 1, alphaASCII)
	a.RemAddr = field(t, "rem", 1, alphaASCII)
	da := alphaAny
	if a.AType == 1 {
		da = alphaASCII
	}
	a.Data = field(t, "data", 1, da)
	return a
}

func genAuthenReply(t *rapid.T) model.AuthenReply {
	return model.AuthenReply{
		Status:    rapid.SampledFrom(authenStatuses).Draw(t, "status"),
		Flags:     rapid.Byte().Draw(t, "flags"),
		ServerMsg: field(t, "msg", 2, alphaAny),
		Data:      field(t, "data", 2, alphaAny),
	}
}

func genAuthenContinue(t *rapid.T) model.AuthenContinue {
	return model.AuthenContinue{
		Flags:   rapid.Byte().Draw(t, "flags"),
		UserMsg: field(t, "umsg", 2, alphaASCII),
		Data:    field(t, "data", 2, alphaAny),
	}
}

func genAuthorRequest(t *rapid.T) model.AuthorRequest {
	a := model.AuthorRequest{
		Method:  rapid.SampledFrom(authenMethods).Draw(t, "method"),
		Priv:    rapid.ByteRange(0, 15).Draw(t, "priv"),
		AType:   rapid.SampledFrom(authenTypes0).Draw(t, "atype"),
		Service: rapid.SampledFrom(authenServices).Draw(t, "service"),
		User:    field(t, "user", 1, alphaASCII),
		Port:    field(t, "port", 1, alphaASCII),
		RemAddr: field(t, "rem", 1, alphaASCII),
		Args:    genArgs(t, "args", 2),
	}
	if rapid.IntRange(0, 24).Draw(t, "everything_at_its_maximum") == 0 {
		a.User, a.Port, a.RemAddr, a.Args = genFull(t)
	}
	return a
}

// genFull: as much as the request layouts can carry in every place at once - 254 or 255 arguments of 255
// octets each and text fields of 0, 1, 170, 171 or 255 octets (the announced lengths add up to more than a
// 16-bit counter holds from 171+171+171 on).
func genFull(t *rapid.T) (user, port, rem model.B, args []model.B) {
	n := rapid.SampledFrom([]int{255, 255, 254}).Draw(t, "full_args")
	tile := rapid.SliceOfN(genByteIn(alphaPrint), 1, 3).Draw(t, "full_tile")
	for i := 0; i < n; i++ {
		b := make([]byte, 255)
		for j := range b {
			b[j] = tile[(i+j)%len(tile)]
		}
		args = append(args, b)
	}
	lens := []int{0, 1, 170, 171, 255, 255}
	user = genBytes(t, "full_user", rapid.SampledFrom(lens).Draw(t, "full_user_len"), alphaPrint)
	port = genBytes(t, "full_port", rapid.SampledFrom(lens).Draw(t, "full_port_len"), alphaPrint)
	rem = genBytes(t, "full_rem", rapid.SampledFrom(lens).Draw(t, "full_rem_len"), alphaPrint)
	return
}

func genAuthorReply(t *rapid.T) model.AuthorReply {
	return model.AuthorReply{
		Status:    rapid.SampledFrom(authorStatuses).Draw(t, "status"),
		ServerMsg: field(t, "msg", 2, alphaASCII),
		Data:      field(t, "data", 2, alphaASCII),
		Args:      genArgs(t, "args", 2),
	}
}

func genAcctRequest(t *rapid.T) model.AcctRequest {
	a := model.AcctRequest{
		Flags:   genAcctFlags(t),
		Method:  rapid.SampledFrom(authenMethods).Draw(t, "method"),
		Priv:    rapid.ByteRange(0, 15).Draw(t, "priv"),
		AType:   rapid.SampledFrom(authenTypes0).Draw(t, "atype"),
		Service: rapid.SampledFrom(authenServices).Draw(t, "service"),
		User:    field(t, "user", 1, alphaASCII),
		Port:    field(t, "port", 1, alphaASCII),
		RemAddr: field(t, "rem", 1, alphaASCII),
		Args:    genArgs(t, "args", 0),
	}
	if rapid.IntRange(0, 24).Draw(t, "everything_at_its_maximum") == 0 {
		a.User, a.Port, a.RemAddr, a.Args = genFull(t)
	}
	return a
}

func genAcctReply(t *rapid.T) model.AcctReply {
	return model.AcctReply{
		Status:    rapid.SampledFrom(acctStatuses).Draw(t, "status"),
		ServerMsg: field(t, "msg", 2, alphaASCII),
		Data:      field(t, "data", 2, alphaASCII),
	}
}
