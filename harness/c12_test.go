package harness

import (
	"encoding/json"
	"strings"
	"testing"

	"verif/harness/cfggen"
	"verif/harness/ev"
	"verif/harness/model"

	"pgregory.net/rapid"
)

// C12 — acknowledged accounting records are written once, before the reply, and say what the client sent.

type c12Req struct {
	Seq  byte              `json:"seq"`
	Req  model.AcctRequest `json:"req"`
	Trim int               `json:"trim"` // >0: cut that many bytes off the body (undecodable request)
	// Follow: sent on the session id of the request before it, with the next client sequence number
	// (the updates of a task); it is judged like any other request
	Follow bool `json:"follow,omitempty"`
}

type c12Case struct {
	Format string   `json:"format"`
	Reqs   []c12Req `json:"reqs"`
	// Extra users with generated accounter blocks (names may repeat or be empty, types differ)
	Extra []cfggen.User `json:"extra,omitempty"`
	// Syslog: the server also registers the syslog accounter (writing to a socket the harness owns), so
	// users whose accounter is of type SYSLOG are accountable too
	Syslog bool `json:"syslog,omitempty"`
	// SinkLogger: 0 = the sink is the harness' recorder; 1 = a log.Logger over it; k > 1 = that logger's
	// every k-th write reports an error after the record was taken
	SinkLogger int `json:"sink_logger,omitempty"`
}

// the fixed configuration of this check: who has which accounter
func c12Config() cfggen.Config {
	var c cfggen.Config
	c.Secrets = []cfggen.Secret{cfggen.NewSecret(cfggen.ScopeA, cfggen.KeyA, cfggen.PrefixA)}
	file := cfggen.FileAccounter()
	c.Users = []cfggen.User{
		{Name: "alice", Scopes: []string{cfggen.ScopeA}, Accounter: file},
		{Name: "bob", Scopes: []string{cfggen.ScopeA}},
		{Name: "carol", Scopes: []string{cfggen.ScopeA}, Accounter: &cfggen.Accounter{Name: "syslog", Type: cfggen.AcctSyslog}},
		{Name: "dave", Scopes: []string{cfggen.ScopeA}, Groups: []cfggen.Group{{Name: "g0"}, {Name: "g1", Accounter: file}}},
		{Name: "erin", Scopes: []string{cfggen.ScopeB}, Accounter: file},
		{Name: "a%sb", Scopes: []string{cfggen.ScopeA}, Accounter: file},
	}
	return c
}

var c12HasAccounter = map[string]bool{"alice": true, "dave": true, "a%sb": true}

// hasFileAccounter: does the user, as scope A sees it, end up with the file accounter (the only type
// the reference server registers)?
func (c c12Case) hasFileAccounter(user string) bool {
	cfg := c12Config()
	cfg.Users = append(cfg.Users, c.Extra...)
	u, ok := cfg.ScopeUsers(cfggen.ScopeA)[user]
	return ok && u.Acct != nil && (u.Acct.Type == cfggen.AcctFile || (c.Syslog && u.Acct.Type == cfggen.AcctSyslog))
}

func genC12Extra(t *rapid.T) []cfggen.User {
	var out []cfggen.User
	n := rapid.IntRange(0, 4).Draw(t, "nextra")
	for i := 0; i < n; i++ {
		u := cfggen.User{Name: []string{"x0", "x1", "x2", "x3"}[i], Scopes: []string{cfggen.ScopeA}}
		acct := func(label string) *cfggen.Accounter {
			if rapid.IntRange(0, 4).Draw(t, label+"_none") == 0 {
				return nil
			}
			return &cfggen.Accounter{Name: rapid.SampledFrom([]string{"", "file", "log"}).Draw(t, label+"_name"),
				Type: rapid.SampledFrom([]int{cfggen.AcctFile, cfggen.AcctFile, cfggen.AcctSyslog, cfggen.AcctStderr, 42}).Draw(t, label+"_type")}
		}
		u.Accounter = acct("acct")
		if rapid.Bool().Draw(t, "via_groups") {
			u.Groups = []cfggen.Group{{Name: "ga", Accounter: acct("gacct1")}, {Name: "gb", Accounter: acct("gacct2")}}
		}
		out = append(out, u)
	}
	// words the tree under test knows and the unchanged tree does not (see newWords): a user of that name
	// with the file accounter, so that whatever meaning the word was given has something to act on
	for _, w := range newWords() {
		if rapid.Bool().Draw(t, "user_named_"+w) {
			out = append(out, cfggen.User{Name: w, Scopes: []string{cfggen.ScopeA}, Accounter: cfggen.FileAccounter()})
		}
	}
	return out
}

var nasty = []string{"%", "%d", "%!", "%s%s%s", "100%", `"`, `\`, `\"`, "<", "&", ">", "\x00", "\x01\x02", "\n", "\t", "\x7f", "%!d(MISSING)", "%%", "%v", "%+v", "%[1]s", "%09d", "{", "}", "',", `\u003c`, `\u003e`, `\u0026`, `\u0000`, `\n`, `\\`, `\x00`, "&lt;", "\\u003c<"}

func genNastyText(t *rapid.T, label string, max int) model.B {
	var sb strings.Builder
	n := rapid.IntRange(0, 4).Draw(t, label+"_parts")
	for i := 0; i < n; i++ {
		kind := rapid.IntRange(0, 30).Draw(t, label+"_part")
		if kind < 30 {
			kind %= 3
		}
		switch kind {
		case 30:
			// not US-ASCII at all: such a request cannot be decoded and is answered ERROR
			sb.WriteString(rapid.SampledFrom([]string{"\xe9", "caf\xc3\xa9", "\xff", "\x80"}).Draw(t, label+"_high"))
		case 0:
			sb.WriteString(rapid.SampledFrom(nasty).Draw(t, label+"_nasty"))
		case 1:
			sb.WriteString(rapid.SampledFrom([]string{"show", "cmd=", "task_id=", "tty0", "10.0.0.1", "service=shell", "elapsed_time=5"}).Draw(t, label+"_word"))
		default:
			sb.Write(rapid.SliceOfN(rapid.ByteRange(0, 0x7f), 0, 6).Draw(t, label+"_bytes"))
		}
	}
	s := sb.String()
	if len(s) > max {
		s = s[:max]
	}
	return model.B(s)
}

func genC12(t *rapid.T) c12Case {
	c := c12Case{Format: rapid.SampledFrom([]string{"yaml", "json"}).Draw(t, "format"), Extra: genC12Extra(t)}
	c.Syslog = rapid.IntRange(0, 3).Draw(t, "syslog_accounter") == 0
	c.SinkLogger = rapid.SampledFrom([]int{0, 0, 0, 1, 2, 3}).Draw(t, "sink_logger")
	n := rapid.IntRange(1, 6).Draw(t, "nreqs")
	for i := 0; i < n; i++ {
		r := c12Req{Seq: rapid.SampledFrom([]byte{1, 1, 3, 5}).Draw(t, "seq")}
		r.Req = model.AcctRequest{
			Flags:   rapid.OneOf(rapid.SampledFrom([]byte{2, 4, 8, 0x0a, 2, 4, 8, 0x0a, 0x0c, 0x0e, 0, 6}), rapid.Byte()).Draw(t, "flags"),
			Method:  rapid.SampledFrom(authenMethods).Draw(t, "method"),
			Priv:    rapid.ByteRange(0, 15).Draw(t, "priv"),
			AType:   rapid.SampledFrom(authenTypes0).Draw(t, "atype"),
			Service: rapid.SampledFrom(authenServices).Draw(t, "service"),
			User:    model.B(rapid.SampledFrom(append([]string{"alice", "alice", "dave", "a%sb", "bob", "carol", "carol", "carol", "erin", "mallory", "", "x0", "x1", "x2", "x3", "x0", "x1", ""}, newWords()...)).Draw(t, "user")),
			Port:    genNastyText(t, "port", 255),
			RemAddr: genNastyText(t, "rem", 255),
		}
		na := rapid.OneOf(rapid.IntRange(0, 5), rapid.SampledFrom([]int{0, 1, 16, 17, 64, 255})).Draw(t, "nargs")
		if rapid.IntRange(0, 4).Draw(t, "standard_attributes") == 0 {
			// what devices report: the standard attributes, numeric values at the edges
			r.Req.Args = genAttrArgs(t, "attr", rapid.IntRange(0, 4).Draw(t, "nattrs"))
			na = 0
		}
		for j := 0; j < na; j++ {
			if j < 6 {
				r.Req.Args = append(r.Req.Args, genNastyText(t, "arg", 255))
			} else {
				r.Req.Args = append(r.Req.Args, model.B(rapid.SampledFrom(nasty).Draw(t, "argn")))
			}
		}
		if rapid.IntRange(0, 9).Draw(t, "truncate") == 0 {
			r.Trim = rapid.IntRange(1, 12).Draw(t, "trim")
		}
		if i > 0 && rapid.IntRange(0, 3).Draw(t, "near_copy") == 0 {
			// almost the request before it: the same fields, the arguments differing only in white space
			// or in where one argument ends and the next begins
			prev := c.Reqs[i-1].Req
			r.Req, r.Trim = prev, 0
			args := append([]model.B{}, prev.Args...)
			if len(args) == 0 {
				args = []model.B{model.B("cmd=show version")}
			}
			k := rapid.IntRange(0, len(args)-1).Draw(t, "near_idx")
			switch rapid.IntRange(0, 3).Draw(t, "near_kind") {
			case 0:
				args[k] = append(append(model.B{}, args[k]...), ' ')
			case 1:
				args[k] = append(model.B{' '}, args[k]...)
			case 2:
				if len(args) < 255 {
					args = append(args[:k+1], append([]model.B{model.B("x")}, args[k+1:]...)...)
					args[k] = append(append(model.B{}, args[k]...), []byte(", x")...)
					args = append(args[:k+1], args[k+2:]...)
				}
			default:
				if k+1 < len(args) {
					joined := append(append(append(model.B{}, args[k]...), []byte(", ")...), args[k+1]...)
					args = append(append(append([]model.B{}, args[:k]...), joined), args[k+2:]...)
				} else {
					args[k] = append(append(model.B{}, args[k]...), '\t')
				}
			}
			for j := range args {
				if len(args[j]) > 255 {
					args[j] = args[j][:255]
				}
			}
			r.Req.Args = args
		}
		if i > 0 && c.Reqs[i-1].Seq < 250 && rapid.IntRange(0, 2).Draw(t, "follow") == 0 {
			r.Follow = true
			r.Seq = c.Reqs[i-1].Seq + 2
		}
		c.Reqs = append(c.Reqs, r)
	}
	return c
}

// record is the harness' reading of one sink line.
type c12Record struct {
	Flags, Method, Priv, AType, Service int
	User, Port, RemAddr                 string
	Args                                []string
	ok                                  bool
}

func parseRecord(line string) (r c12Record) {
	var m map[string]json.RawMessage
	if err := json.Unmarshal([]byte(line), &m); err != nil {
		return r
	}
	alias := map[string]string{"flags": "flags", "method": "method", "authen_method": "method", "authenmethod": "method",
		"privlvl": "priv", "priv_lvl": "priv", "priv-lvl": "priv", "type": "type", "authen_type": "type", "authentype": "type",
		"service": "service", "authen_service": "service", "authenservice": "service", "user": "user", "port": "port",
		"remaddr": "rem", "rem_addr": "rem", "rem-addr": "rem", "args": "args"}
	seen := map[string]bool{}
	for k, raw := range m {
		f, okk := alias[strings.ToLower(k)]
		if !okk {
			continue
		}
		seen[f] = true
		var err error
		switch f {
		case "flags":
			err = json.Unmarshal(raw, &r.Flags)
		case "method":
			err = json.Unmarshal(raw, &r.Method)
		case "priv":
			err = json.Unmarshal(raw, &r.Priv)
		case "type":
			err = json.Unmarshal(raw, &r.AType)
		case "service":
			err = json.Unmarshal(raw, &r.Service)
		case "user":
			err = json.Unmarshal(raw, &r.User)
		case "port":
			err = json.Unmarshal(raw, &r.Port)
		case "rem":
			err = json.Unmarshal(raw, &r.RemAddr)
		case "args":
			err = json.Unmarshal(raw, &r.Args)
		}
		if err != nil {
			return r
		}
	}
	r.ok = len(seen) == 9
	return r
}

func (r c12Record) equals(q model.AcctRequest) bool {
	if !r.ok || r.Flags != int(q.Flags) || r.Method != int(q.Method) || r.Priv != int(q.Priv) || r.AType != int(q.AType) || r.Service != int(q.Service) {
		return false
	}
	if r.User != string(q.User) || r.Port != string(q.Port) || r.RemAddr != string(q.RemAddr) || len(r.Args) != len(q.Args) {
		return false
	}
	for i := range r.Args {
		if r.Args[i] != string(q.Args[i]) {
			return false
		}
	}
	return true
}

func runC12(t failer, c c12Case) {
	ev.Eval()
	journal("C12", c)
	fail := func(sig, format string, args ...interface{}) {
		violation(t, "C12", "acct", "C12:"+sig, c, format, args...)
	}
	cfg := c12Config()
	cfg.Users = append(cfg.Users, c.Extra...)
	env, err := startRef(cfg, refOpts{format: c.Format, recover: true, syslog: c.Syslog, sinkLogger: c.SinkLogger})
	if err != nil {
		t.Fatalf("HARNESS-BUG: fixed configuration refused: %v", err)
	}
	switch {
	case c.SinkLogger == 1:
		ev.Class("sink:log.Logger")
	case c.SinkLogger > 1:
		ev.Class("sink:log.Logger-whose-writes-fail-after-the-fact")
	}
	defer func() {
		if e := env.stop(); e != nil {
			t.Fatalf("%v", e)
		}
	}()
	d, err := env.dial(cfggen.AddrIn(cfggen.ScopeA, 4).IP(), 1234)
	if err != nil {
		t.Fatalf("%v", err)
	}
	key := []byte(cfggen.KeyA)
	session := uint32(0)
	for i, r := range c.Reqs {
		if !r.Follow {
			session = uint32(0x3000 + i)
		} else {
			ev.Class("req:follows-on-same-session")
		}
		body := r.Req.Encode()
		if r.Trim > 0 && r.Trim < len(body) {
			body = body[:len(body)-r.Trim]
		}
		env.sink.take()
		nw := len(d.c.Writes())
		wire := model.Frame(key, model.Header{Version: 0xc0, Type: model.TypeAcct, Seq: r.Seq, Session: session}, body)
		pkts, _, closed, err := d.send(wire)
		if err != nil {
			t.Fatalf("%v", err)
		}
		lines := env.sink.take()
		var viaSyslog []string
		if env.syslogd != nil {
			viaSyslog = env.syslogd.drain()
		}
		if closed {
			// a truncated body can look like a key mismatch (C19): nothing to check for accounting
			ev.Class("closed(key-mismatch-lookalike)")
			return
		}
		if len(pkts) != 1 {
			ev.Class("no-single-reply")
			continue
		}
		rep, ok, _ := model.DecodeAcctReply(pkts[0].Clear(key))
		if !ok {
			fail("reply-undecodable", "request %d: reply is not an accounting REPLY", i)
		}
		// judged on the bytes actually sent (a cut that is as long as the body leaves it whole)
		sent, decOK, exact := model.DecodeAcctRequest(body)
		decodable := decOK && exact
		// text outside US-ASCII is not a request the library decodes (every text field and argument is ASCII)
		for _, f := range append([]model.B{sent.User, sent.Port, sent.RemAddr}, sent.Args...) {
			if decodable && !isASCII(f) {
				decodable = false
				ev.Class("req:non-ascii-text")
			}
		}
		contradictory := sent.Flags&0x04 != 0 && sent.Flags&0x08 != 0
		known := c.hasFileAccounter(string(sent.User))
		switch {
		case !decodable:
			ev.Class("req:undecodable")
		case contradictory:
			ev.Class("req:stop+watchdog")
		case !known:
			ev.Class("req:unknown-user-or-no-accounter")
		default:
			ev.Class("req:accountable")
		}
		if (!decodable || contradictory || !known) && rep.Status != 2 {
			fail("not-answered-error", "request %d (decodable=%v stop+watchdog=%v user %q has accounter=%v) answered status %d, must be ERROR", i, decodable, contradictory, sent.User, known, rep.Status)
		}
		if rep.Status != 1 {
			ev.Class("reply:ERROR")
			continue
		}
		ev.Class("reply:SUCCESS")
		if len(lines)+len(viaSyslog) != 1 {
			fail("record-count", "request %d acknowledged with SUCCESS but %d records reached the sink (%d of them through syslog)", i, len(lines)+len(viaSyslog), len(viaSyslog))
		}
		if len(viaSyslog) == 1 {
			// the datagram was already queued when the reply had arrived (drain does not wait for it)
			ev.Class("record:via-syslog-accounter")
			if rec := parseRecord(viaSyslog[0]); !rec.equals(sent) {
				fail("record-differs", "request %d: the syslog message does not decode to the request\n line=%q\n req =%s", i, viaSyslog[0], js(sent))
			}
			continue
		}
		writes := d.c.Writes()
		if len(writes) <= nw || lines[0].Stamp >= writes[nw].Stamp {
			fail("record-after-reply", "request %d: the record was handed to the sink after the reply was written", i)
		}
		rec := parseRecord(lines[0].Text)
		if !rec.equals(sent) {
			fail("record-differs", "request %d: the sink line does not decode to the request\n line=%q\n req =%s", i, lines[0].Text, js(sent))
		}
	}
}

func classifyC12(c c12Case) {
	nt := false
	for _, r := range c.Reqs {
		fields := append([]model.B{r.Req.User, r.Req.Port, r.Req.RemAddr}, r.Req.Args...)
		for _, f := range fields {
			if strings.ContainsAny(string(f), "%\"\\") {
				nt = true
				ev.Class("field:percent/quote/backslash")
				break
			}
		}
		for _, f := range fields {
			for _, ch := range f {
				if ch < 0x20 || ch == 0x7f {
					nt = true
					ev.Class("field:control-char")
					break
				}
			}
		}
		if len(r.Req.Args) >= 16 {
			nt = true
			ev.Class("args>=16")
		}
	}
	if nt {
		ev.NonTrivial("c12", c)
	}
}

func TestC12(t *testing.T) {
	rapid.Check(t, func(rt *rapid.T) {
		c := genC12(rt)
		runC12(rt, c)
		classifyC12(c)
	})
}

// TestC12Enum: every flag octet at sequence numbers 1, 3, 5, and every single ASCII byte as an argument.
func TestC12Enum(t *testing.T) {
	var c c12Case
	c.Format = "yaml"
	for f := 0; f < 256; f++ {
		for _, seq := range []byte{1, 3, 5} {
			c.Reqs = append(c.Reqs, c12Req{Seq: seq, Req: model.AcctRequest{Flags: byte(f), Method: 6, Priv: 1, AType: 1, Service: 1, User: b("alice"), Port: b("tty0"), RemAddr: b("r"), Args: []model.B{b("task_id=1")}}})
		}
	}
	runC12(t, c)
	classifyC12(c)
	c = c12Case{Format: "json"}
	for ch := 0; ch < 128; ch++ {
		c.Reqs = append(c.Reqs, c12Req{Seq: 1, Req: model.AcctRequest{Flags: 2, Method: 6, Priv: 1, AType: 1, Service: 1, User: b("alice"), Port: model.B{byte(ch)}, RemAddr: model.B{'%', byte(ch)}, Args: []model.B{{byte(ch)}, {'c', 'm', 'd', '=', byte(ch), '%', 'd'}}}})
	}
	runC12(t, c)
	classifyC12(c)
}

func TestC12Regress(t *testing.T) {
	for _, s := range loadSaved(t, "C12") {
		var probe struct {
			Conc int `json:"concurrent_connections"`
		}
		mustUnmarshal(t, s, &probe)
		if probe.Conc > 0 {
			runC12Concurrent(t)
			continue
		}
		var c c12Case
		mustUnmarshal(t, s, &c)
		runC12(t, c)
	}
}
