package harness

import (
	"fmt"
	"sync"
	"testing"

	"verif/harness/cfggen"
	"verif/harness/ev"
	"verif/harness/model"
)

// The reference server under simultaneous clients.  The generated histories of C10, C11 and C12 drive one
// connection at a time (C09 and C15 overlap connections, but judge by comparison with a lone session and
// by the race detector).  Here eight connections act at the same moment and every answer is judged by the
// property's own rule: a password verifies or it does not, the policy permits or denies, every acknowledged
// record is in the sink once and decodes to its request.

const concClients = 8

type concFailure struct {
	sig, msg string
}

// eachClient runs f on concClients connections from scope A at once; the first failure wins.
func eachClient(t failer, env *refEnv, f func(i int, d *connDriver) *concFailure) *concFailure {
	var wg sync.WaitGroup
	var mu sync.Mutex
	var first *concFailure
	start := make(chan struct{})
	for i := 0; i < concClients; i++ {
		d, err := env.dial(cfggen.AddrIn(cfggen.ScopeA, byte(100+i)).IP(), 9000+i)
		if err != nil {
			t.Fatalf("%v", err)
		}
		wg.Add(1)
		go func(i int, d *connDriver) {
			defer wg.Done()
			<-start
			if cf := f(i, d); cf != nil {
				mu.Lock()
				if first == nil {
					first = cf
				}
				mu.Unlock()
			}
		}(i, d)
	}
	close(start)
	wg.Wait()
	return first
}

// TestC10EnumConcurrentLogins: eight simultaneous logins of one user from eight connections, the password
// check slow enough to overlap (work factor 12); odd clients present a wrong password.
func TestC10EnumConcurrentLogins(t *testing.T) { runC10Concurrent(t) }

func runC10Concurrent(t failer) {
	var w cfggen.World
	w.Keychain = map[string]string{}
	w.Cfg.Secrets = []cfggen.Secret{cfggen.NewSecret(cfggen.ScopeA, cfggen.KeyA, cfggen.PrefixA)}
	w.Cfg.Users = []cfggen.User{{Name: "alice", Scopes: []string{cfggen.ScopeA}, Authenticator: &cfggen.Authenticator{Type: cfggen.AuthnBcrypt, Options: map[string]string{"hash": c07CostHashes[12]}}}}
	for round := 0; round < 4; round++ {
		for _, flow := range []string{"pap", "ascii"} {
			ev.Eval()
			// in even rounds one client is right and seven are wrong, in odd rounds the other way round
			rightOf := func(i int) bool { return (i == round%concClients) == (round%2 == 0) }
			cse := map[string]interface{}{"world": w, "flow": flow, "round": round, "concurrent_logins": concClients}
			journal("C10", cse)
			env, err := startRef(w.Cfg, refOpts{recover: true})
			if err != nil {
				t.Fatalf("HARNESS-BUG: %v", err)
			}
			key := []byte(cfggen.KeyA)
			cf := eachClient(t, env, func(i int, d *connDriver) *concFailure {
				pw := "pw-bravo"
				if rightOf(i) {
					pw = "pw-alpha"
				}
				var status byte
				if flow == "pap" {
					st, _, _, err := papLogin(d, key, uint32(500+i), "alice", pw)
					if err != nil {
						return &concFailure{"harness", err.Error()}
					}
					status = st
				} else {
					if _, _, _, err := d.send(model.Frame(key, model.Header{Version: 0xc0, Type: 1, Seq: 1, Session: uint32(500 + i)}, model.AuthenStart{Action: 1, Priv: 1, AType: 1, Service: 1, User: b("alice"), Port: b("tty0"), RemAddr: b("r")}.Encode())); err != nil {
						return &concFailure{"harness", err.Error()}
					}
					pk, _, _, err := d.send(model.Frame(key, model.Header{Version: 0xc0, Type: 1, Seq: 3, Session: uint32(500 + i)}, model.AuthenContinue{UserMsg: b(pw)}.Encode()))
					if err != nil {
						return &concFailure{"harness", err.Error()}
					}
					if len(pk) == 1 {
						if r, ok, _ := model.DecodeAuthenReply(pk[0].Clear(key)); ok {
							status = r.Status
						}
					}
				}
				switch {
				case !rightOf(i) && status == stPass:
					return &concFailure{"unjustified-pass", fmt.Sprintf("%s login of alice with a wrong password, made at the same moment as %d other logins of alice from other connections, was answered PASS", flow, concClients-1)}
				case rightOf(i) && status != stPass:
					return &concFailure{"correct-login-not-passed", fmt.Sprintf("%s login of alice with the right password, made at the same moment as %d other logins of alice from other connections, was answered status %d", flow, concClients-1, status)}
				}
				return nil
			})
			if e := env.stop(); e != nil {
				t.Fatalf("%v", e)
			}
			if cf != nil {
				if cf.sig == "harness" {
					t.Fatalf("%s", cf.msg)
				}
				violation(t, "C10", "authen", "C10:"+cf.sig, cse, "%s", cf.msg)
			}
			ev.Class("simultaneous-logins-of-one-user:" + flow)
			ev.NonTrivial("concurrent-logins", cse)
		}
	}
}

// TestC11EnumConcurrent: eight connections of one user ask for commands at the same moment, half of them
// commands the policy permits, half commands it denies, 600 times each.
func TestC11EnumConcurrent(t *testing.T) { runC11Concurrent(t) }

func runC11Concurrent(t failer) {
	ev.Eval()
	var w cfggen.World
	w.Keychain = map[string]string{}
	w.Cfg.Secrets = []cfggen.Secret{cfggen.NewSecret(cfggen.ScopeA, cfggen.KeyA, cfggen.PrefixA)}
	w.Cfg.Users = []cfggen.User{{Name: "alice", Scopes: []string{cfggen.ScopeA}, Authenticator: cfggen.BcryptAuth("pw-alpha"),
		Commands: []cfggen.Command{{Name: "reload", Action: cfggen.ActionDeny}, {Name: "show", Match: []string{"running-config.*"}, Action: cfggen.ActionDeny}, {Name: "show", Match: []string{".*"}, Action: cfggen.ActionPermit}, {Name: "ping", Action: cfggen.ActionPermit}}}}
	type q struct {
		args   []string
		permit bool
	}
	qs := []q{
		{[]string{"service=shell", "cmd=show", "cmd-arg=version"}, true},
		{[]string{"service=shell", "cmd=reload"}, false},
		{[]string{"service=shell", "cmd=ping", "cmd-arg=10.0.0.1"}, true},
		{[]string{"service=shell", "cmd=show", "cmd-arg=running-config"}, false},
		{[]string{"service=shell", "cmd=show", "cmd-arg=clock"}, true},
		{[]string{"service=shell", "cmd=configure", "cmd-arg=terminal"}, false},
	}
	cse := map[string]interface{}{"world": w, "questions": qs, "concurrent_connections": concClients}
	journal("C11", cse)
	env, err := startRef(w.Cfg, refOpts{recover: true, quiet: true})
	if err != nil {
		t.Fatalf("HARNESS-BUG: %v", err)
	}
	key := []byte(cfggen.KeyA)
	cf := eachClient(t, env, func(i int, d *connDriver) *concFailure {
		for k := 0; k < 600; k++ {
			qq := qs[(i+k*(1+i%3))%len(qs)]
			var margs []model.B
			for _, a := range qq.args {
				margs = append(margs, model.B(a))
			}
			body := model.AuthorRequest{Method: 6, Priv: 1, AType: 1, Service: 1, User: b("alice"), Port: b("tty0"), RemAddr: b("r"), Args: margs}.Encode()
			pk, _, _, err := d.send(model.Frame(key, model.Header{Version: 0xc0, Type: 2, Seq: 1, Session: uint32(7000 + 1000*i + k)}, body))
			if err != nil {
				return &concFailure{"harness", err.Error()}
			}
			if len(pk) != 1 {
				return &concFailure{"wrong-decision", fmt.Sprintf("request %v got %d replies", qq.args, len(pk))}
			}
			r, ok, _ := model.DecodeAuthorReply(pk[0].Clear(key))
			granted := ok && (r.Status == 1 || r.Status == 2)
			switch {
			case granted && !qq.permit:
				return &concFailure{"granted-against-policy", fmt.Sprintf("%v is denied by alice's rules; asked while her other connections asked other questions, it was answered status %d", qq.args, r.Status)}
			case !granted && qq.permit:
				return &concFailure{"denied-against-policy", fmt.Sprintf("%v is permitted by alice's rules; asked while her other connections asked other questions, it was answered status %d (decodes=%v)", qq.args, r.Status, ok)}
			}
		}
		return nil
	})
	if e := env.stop(); e != nil {
		t.Fatalf("%v", e)
	}
	if cf != nil {
		if cf.sig == "harness" {
			t.Fatalf("%s", cf.msg)
		}
		violation(t, "C11", "author", "C11:"+cf.sig, cse, "%s", cf.msg)
	}
	ev.Class("simultaneous-questions-of-one-user")
	ev.NonTrivial("concurrent-authorization", cse)
}

// TestC12EnumConcurrent: eight connections send accounting records at the same moment, 1000 each, every one
// different; afterwards every acknowledged request has exactly one line in the sink that decodes to it.
func TestC12EnumConcurrent(t *testing.T) { runC12Concurrent(t) }

func runC12Concurrent(t failer) {
	ev.Eval()
	cfg := c12Config()
	cse := map[string]interface{}{"concurrent_connections": concClients, "records_each": 1000}
	journal("C12", cse)
	env, err := startRef(cfg, refOpts{recover: true, quiet: true})
	if err != nil {
		t.Fatalf("HARNESS-BUG: %v", err)
	}
	key := []byte(cfggen.KeyA)
	var mu sync.Mutex
	acked := map[string]model.AcctRequest{}
	cf := eachClient(t, env, func(i int, d *connDriver) *concFailure {
		for k := 0; k < 1000; k++ {
			id := fmt.Sprintf("task_id=%d-%d", i, k)
			req := model.AcctRequest{Flags: []byte{2, 4, 8}[k%3], Method: 6, Priv: byte(i), AType: 1, Service: 1, User: b("alice"), Port: model.B(fmt.Sprintf("tty%d", i)), RemAddr: b("r"),
				Args: []model.B{model.B(id), model.B(fmt.Sprintf("cmd=show %s <cr> \"q\" %%d", string(rune('a'+i)))), model.B(fmt.Sprintf("elapsed_time=%d", k))}}
			pk, _, _, err := d.send(model.Frame(key, model.Header{Version: 0xc0, Type: 3, Seq: 1, Session: uint32(20000 + 1000*i + k)}, req.Encode()))
			if err != nil {
				return &concFailure{"harness", err.Error()}
			}
			if len(pk) != 1 {
				return &concFailure{"record-count", fmt.Sprintf("accounting request %s got %d replies", id, len(pk))}
			}
			if r, ok, _ := model.DecodeAcctReply(pk[0].Clear(key)); !ok || r.Status != 1 {
				return &concFailure{"well-formed-not-success", fmt.Sprintf("accounting request %s of a user with an accounter, sent while other connections sent theirs, was answered status %d", id, r.Status)}
			}
			mu.Lock()
			acked[id] = req
			mu.Unlock()
		}
		return nil
	})
	lines := env.sink.take()
	if e := env.stop(); e != nil {
		t.Fatalf("%v", e)
	}
	if cf == nil {
		seen := map[string]int{}
		for _, l := range lines {
			rec := parseRecord(l.Text)
			if !rec.ok || len(rec.Args) == 0 {
				cf = &concFailure{"record-differs", fmt.Sprintf("a line in the sink does not decode to any request: %q", clipStr(l.Text))}
				break
			}
			req, known := acked[rec.Args[0]]
			if !known || !rec.equals(req) {
				cf = &concFailure{"record-differs", fmt.Sprintf("the sink line for %s does not decode to the request that was acknowledged\n line=%q", rec.Args[0], clipStr(l.Text))}
				break
			}
			seen[rec.Args[0]]++
		}
		if cf == nil {
			for id := range acked {
				if seen[id] != 1 {
					cf = &concFailure{"record-count", fmt.Sprintf("request %s was acknowledged with SUCCESS and has %d lines in the sink", id, seen[id])}
					break
				}
			}
		}
	}
	if cf != nil {
		if cf.sig == "harness" {
			t.Fatalf("%s", cf.msg)
		}
		violation(t, "C12", "acct", "C12:"+cf.sig, cse, "%s", cf.msg)
	}
	ev.Class("simultaneous-records-from-eight-connections")
	ev.NonTrivial("concurrent-accounting", cse)
}
