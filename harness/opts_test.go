package harness

import (
	tq "github.com/facebookincubator/tacquito"
	"verif/harness/model"
)

// viaOptions builds the library value the way callers of the library do: constructor plus option
// setters (cmds/client, the handlers and the test mocks all build packets this way).  C01 requires the
// value built like this to encode exactly like the struct literal (which is compared with the RFC
// layout), so that "the bytes produced for a packet" covers both ways of making one.
var viaOptions = map[string]func(m interface{}) tq.EncoderDecoder{
	"Header": func(m interface{}) tq.EncoderDecoder {
		h := m.(model.Header)
		return hdrED{tq.NewHeader(
			tq.SetHeaderVersion(tq.Version{MajorVersion: h.Version >> 4, MinorVersion: h.Version & 0xf}),
			tq.SetHeaderType(tq.HeaderType(h.Type)),
			tq.SetHeaderSeqNo(int(h.Seq)),
			tq.SetHeaderFlag(tq.HeaderFlag(h.Flags)),
			tq.SetHeaderSessionID(tq.SessionID(h.Session)),
			tq.SetHeaderLen(int(h.Length)),
		)}
	},
	"AuthenStart": func(m interface{}) tq.EncoderDecoder {
		a := m.(model.AuthenStart)
		return tq.NewAuthenStart(
			tq.SetAuthenStartData(tq.AuthenData(a.Data)),
			tq.SetAuthenStartRemAddr(tq.AuthenRemAddr(a.RemAddr)),
			tq.SetAuthenStartPort(tq.AuthenPort(a.Port)),
			tq.SetAuthenStartUser(tq.AuthenUser(a.User)),
			tq.SetAuthenStartService(tq.AuthenService(a.Service)),
			tq.SetAuthenStartType(tq.AuthenType(a.AType)),
			tq.SetAuthenStartPrivLvl(tq.PrivLvl(a.Priv)),
			tq.SetAuthenStartAction(tq.AuthenAction(a.Action)),
		)
	},
	"AuthenReply": func(m interface{}) tq.EncoderDecoder {
		a := m.(model.AuthenReply)
		return tq.NewAuthenReply(
			tq.SetAuthenReplyStatus(tq.AuthenStatus(a.Status)),
			tq.SetAuthenReplyFlag(tq.AuthenReplyFlag(a.Flags)),
			tq.SetAuthenReplyServerMsg(string(a.ServerMsg)),
			tq.SetAuthenReplyData(tq.AuthenData(a.Data)),
		)
	},
	"AuthenContinue": func(m interface{}) tq.EncoderDecoder {
		a := m.(model.AuthenContinue)
		return tq.NewAuthenContinue(
			tq.SetAuthenContinueData(tq.AuthenData(a.Data)),
			tq.SetAuthenContinueUserMessage(tq.AuthenUserMessage(a.UserMsg)),
			tq.SetAuthenContinueFlag(tq.AuthenContinueFlag(a.Flags)),
		)
	},
	"AuthorRequest": func(m interface{}) tq.EncoderDecoder {
		a := m.(model.AuthorRequest)
		return tq.NewAuthorRequest(
			tq.SetAuthorRequestMethod(tq.AuthenMethod(a.Method)),
			tq.SetAuthorRequestPrivLvl(tq.PrivLvl(a.Priv)),
			tq.SetAuthorRequestType(tq.AuthenType(a.AType)),
			tq.SetAuthorRequestService(tq.AuthenService(a.Service)),
			tq.SetAuthorRequestUser(tq.AuthenUser(a.User)),
			tq.SetAuthorRequestPort(tq.AuthenPort(a.Port)),
			tq.SetAuthorRequestRemAddr(tq.AuthenRemAddr(a.RemAddr)),
			tq.SetAuthorRequestArgs(toArgs(a.Args)),
		)
	},
	"AuthorReply": func(m interface{}) tq.EncoderDecoder {
		a := m.(model.AuthorReply)
		var args []string
		for _, x := range a.Args {
			args = append(args, string(x))
		}
		return tq.NewAuthorReply(
			tq.SetAuthorReplyArgs(args...),
			tq.SetAuthorReplyData(tq.AuthorData(a.Data)),
			tq.SetAuthorReplyServerMsg(string(a.ServerMsg)),
			tq.SetAuthorReplyStatus(tq.AuthorStatus(a.Status)),
		)
	},
	"AcctRequest": func(m interface{}) tq.EncoderDecoder {
		a := m.(model.AcctRequest)
		return tq.NewAcctRequest(
			tq.SetAcctRequestArgs(toArgs(a.Args)),
			tq.SetAcctRequestRemAddr(tq.AuthenRemAddr(a.RemAddr)),
			tq.SetAcctRequestPort(tq.AuthenPort(a.Port)),
			tq.SetAcctRequestUser(tq.AuthenUser(a.User)),
			tq.SetAcctRequestService(tq.AuthenService(a.Service)),
			tq.SetAcctRequestType(tq.AuthenType(a.AType)),
			tq.SetAcctRequestPrivLvl(tq.PrivLvl(a.Priv)),
			tq.SetAcctRequestMethod(tq.AuthenMethod(a.Method)),
			tq.SetAcctRequestFlag(tq.AcctRequestFlag(a.Flags)),
		)
	},
	"AcctReply": func(m interface{}) tq.EncoderDecoder {
		a := m.(model.AcctReply)
		return tq.NewAcctReply(
			tq.SetAcctReplyStatus(tq.AcctReplyStatus(a.Status)),
			tq.SetAcctReplyServerMsg(string(a.ServerMsg)),
			tq.SetAcctReplyData(tq.AcctData(a.Data)),
		)
	},
}
