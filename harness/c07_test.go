package harness

import (
	"context"
	"fmt"
	"os"
	"strings"
	"testing"

	tq "github.com/facebookincubator/tacquito"
	"github.com/facebookincubator/tacquito/cmds/server/config"
	"github.com/facebookincubator/tacquito/cmds/server/config/authorizers/stringy"

	"verif/harness/cfggen"
	"verif/harness/ev"
	"verif/harness/model"
	"verif/harness/refsrv"

	"pgregory.net/rapid"
)

// C07 — one request, one reply; rejected requests get no handler and a closed connection.

type c07Step struct {
	Path    string  `json:"path"` // what kind of request this is (for classification and signatures)
	Type    byte    `json:"type"`
	Minor   byte    `json:"minor"`
	Flags   byte    `json:"flags"`
	Sess    int     `json:"sess"`     // index into the session id pool
	SeqMode string  `json:"seq_mode"` // next | even | replay | jump | max | one
	Body    model.B `json:"body"`
	// header corruption (0 = leave)
	Version  byte   `json:"version,omitempty"`
	BadType  byte   `json:"bad_type,omitempty"`
	Oversize uint32 `json:"oversize,omitempty"`
	WrongKey bool   `json:"wrong_key,omitempty"`
	// Tail: a second request arrives in the same read as this one (pipelining), on a session id of its
	// own so that what it must get does not depend on this request: "author" (an acceptable
	// authorization request), "bad-header" or "even-seq" (requests the server rejects)
	Tail string `json:"tail,omitempty"`
	// Slow: the harness' clock moves on before the reply is written (a slow authenticator, a request
	// that arrived late): a write deadline armed earlier, if any, has passed by then
	Slow bool `json:"slow,omitempty"`
}

type c07Case struct {
	World  cfggen.World `json:"world"`
	Format string       `json:"format"`
	Steps  []c07Step    `json:"steps"`
	// EmptyKey: the scope's shared secret is the empty string (legal; the pad is then derived from the
	// session id, version and sequence number alone)
	EmptyKey bool `json:"empty_key,omitempty"`
}

var c07Sessions = []uint32{0x51, 0x52, 0x53, 0xfffffff0}

// badValues: configured set-values that cannot be put into an authorization REPLY.
func addBadService(t *rapid.T, u *cfggen.User) {
	u.Services = append(u.Services, badService(rapid.IntRange(0, 4).Draw(t, "bad_value_kind")))
}

func badService(kind int) cfggen.Service {
	s := cfggen.Service{Name: "shell"}
	switch kind {
	case 0:
		s.SetValues = []cfggen.Value{{Name: "rôle", Values: []string{"x"}}}
	case 1:
		s.SetValues = []cfggen.Value{{Name: "long", Values: []string{strings.Repeat("v", 300)}}}
	case 2:
		s.SetValues = []cfggen.Value{{Name: "", Values: nil}} // renders as "=": one byte
	case 3:
		for i := 0; i < 260; i++ {
			s.SetValues = append(s.SetValues, cfggen.Value{Name: fmt.Sprintf("k%d", i), Values: []string{"v"}})
		}
	default:
		s.SetValues = []cfggen.Value{{Name: "ok", Values: []string{"1"}}, {Name: "café", Values: []string{"2"}, Optional: true}}
	}
	return s
}

// TestC07EnumBadValues: every kind of configured value that cannot go into an authorization REPLY, asked
// for by a session authorization (alone, twice in a row, and with another request behind it in the same
// read): exactly one reply each time.
func TestC07EnumBadValues(t *testing.T) {
	for kind := 0; kind <= 4; kind++ {
		for _, format := range []string{"yaml", "json"} {
			var w cfggen.World
			w.Keychain = map[string]string{}
			w.Cfg.Secrets = []cfggen.Secret{cfggen.NewSecret(cfggen.ScopeA, cfggen.KeyA, cfggen.PrefixA)}
			w.Cfg.Users = []cfggen.User{{Name: "alice", Scopes: []string{cfggen.ScopeA}, Authenticator: cfggen.BcryptAuth("pw-alpha"), Services: []cfggen.Service{badService(kind)}}}
			req := func(args ...string) model.B {
				var margs []model.B
				for _, a := range args {
					margs = append(margs, model.B(a))
				}
				return model.AuthorRequest{Method: 6, Priv: 1, AType: 1, Service: 1, User: b("alice"), Port: b("tty0"), RemAddr: b("r"), Args: margs}.Encode()
			}
			c := c07Case{World: w, Format: format, Steps: []c07Step{
				{Path: "author-session", Type: 2, Sess: 0, SeqMode: "next", Body: req("service=shell", "cmd=")},
				{Path: "author-session", Type: 2, Sess: 1, SeqMode: "next", Body: req("service=shell", "cmd*")},
				{Path: "author-session", Type: 2, Sess: 2, SeqMode: "next", Body: req("service=shell", "cmd="), Tail: "author"},
				{Path: "author-session", Type: 2, Sess: 0, SeqMode: "next", Body: req("service=shell"), Slow: true},
			}}
			paths := runC07(t, c)
			classifyC07(c, paths)
		}
	}
}

// c07CostHashes: hex bcrypt hashes of "pw-alpha" by work factor (the generated worlds use factor 4 for speed;
// production hashes are made with 10 and more, and one comparison at 15 takes seconds).
var c07CostHashes = map[int]string{
	10: "24326124313024734259416c6b4b515566654c686c636d4b67414f782e5737633549673264346f2e726f38533778557669766e4668316f7254497453",
	12: "2432612431322453352f6c2f6e6273554443467a51684d6b30397a424f5075477a4b4d337331456a5951374a4143466678662e6e623745435570474b",
	14: "243261243134246f6f766f4853646b3556334c58366732414d6b71632e7334323750757a33566f694b41544c534c424854755165326b7a76516b5a32",
	15: "24326124313524367453344b78506e6933774e35786a4c6e6435366f4f33716f385872634273496a4e66664879474d675455436b6e6f616a42476b75",
	16: "24326124313624586f4c6e6a342e316355626173325a51576d4464334f4d6657742f384676664f5447524e705a54364a2e54655073376a2e35504d6d",
	17: "243261243137246c566c354a394c6834483547457868762e48664363653378764444697873782f4e524f6250577739416e393041444f342f716f4d53",
}

// TestC07EnumCosts: logins (PAP with the right and a wrong password, ASCII) of users whose hash was made
// with a realistic or a high work factor, from the option and from the keychain: one reply each.
func TestC07EnumCosts(t *testing.T) {
	costs := []int{10, 12, 15}
	if os.Getenv("VERIF_TIER") == "thorough" {
		costs = []int{10, 12, 14, 15, 16, 17}
	}
	for _, cost := range costs {
		for _, viaKeychain := range []bool{false, true} {
			if viaKeychain && cost > 12 && cost != 15 {
				continue
			}
			var w cfggen.World
			w.Keychain = map[string]string{}
			w.Cfg.Secrets = []cfggen.Secret{cfggen.NewSecret(cfggen.ScopeA, cfggen.KeyA, cfggen.PrefixA)}
			auth := &cfggen.Authenticator{Type: cfggen.AuthnBcrypt, Options: map[string]string{"hash": c07CostHashes[cost]}}
			if viaKeychain {
				auth = &cfggen.Authenticator{Type: cfggen.AuthnBcrypt, Options: map[string]string{"key": "alice-hash", "group": "g"}}
				w.Keychain["alice-hash"] = c07CostHashes[cost]
			}
			w.Cfg.Users = []cfggen.User{{Name: "alice", Scopes: []string{cfggen.ScopeA}, Authenticator: auth}}
			pap := func(pw string) model.B {
				return model.AuthenStart{Action: 1, Priv: 1, AType: 2, Service: 1, User: b("alice"), Port: b("tty0"), RemAddr: b("r"), Data: b(pw)}.Encode()
			}
			steps := []c07Step{
				{Path: fmt.Sprintf("authen:pap-cost-%d", cost), Type: 1, Minor: 1, Sess: 0, SeqMode: "next", Body: pap("pw-alpha")},
				{Path: fmt.Sprintf("authen:pap-cost-%d", cost), Type: 1, Minor: 1, Sess: 1, SeqMode: "next", Body: pap("pw-alpha"), Tail: "author"},
			}
			if cost <= 14 {
				steps = append(steps,
					c07Step{Path: fmt.Sprintf("authen:pap-wrong-cost-%d", cost), Type: 1, Minor: 1, Sess: 2, SeqMode: "next", Body: pap("pw-bravo")},
					c07Step{Path: fmt.Sprintf("authen:ascii-cost-%d", cost), Type: 1, Sess: 0, SeqMode: "next", Body: model.AuthenStart{Action: 1, Priv: 1, AType: 1, Service: 1, User: b("alice"), Port: b("tty0"), RemAddr: b("r")}.Encode()},
					c07Step{Path: fmt.Sprintf("authen:ascii-cost-%d", cost), Type: 1, Sess: 0, SeqMode: "next", Body: model.AuthenContinue{UserMsg: b("pw-alpha")}.Encode()},
				)
			}
			c := c07Case{World: w, Format: "yaml", Steps: steps}
			paths := runC07(t, c)
			if len(paths) != len(steps) {
				t.Fatalf("HARNESS-BUG: the work-factor case did not run (%d of %d steps)", len(paths), len(steps))
			}
			classifyC07(c, paths)
			ev.Class(fmt.Sprintf("bcrypt-work-factor:%d", cost))
		}
	}
}

func genC07(t *rapid.T) c07Case {
	c := c07Case{World: cfggen.GenWorld(t), Format: rapid.SampledFrom([]string{"yaml", "yaml", "json"}).Draw(t, "format")}
	drawExtraKeys(t, &c.World.Cfg)
	c.EmptyKey = rapid.IntRange(0, 7).Draw(t, "empty_shared_secret") == 0
	if rapid.IntRange(0, 2).Draw(t, "bad_values") == 0 {
		i := rapid.IntRange(0, len(c.World.Cfg.Users)-1).Draw(t, "bad_user")
		addBadService(t, &c.World.Cfg.Users[i])
	}
	w := c.World
	var names []string
	for n := range w.Cfg.ScopeUsers(cfggen.ScopeA) {
		names = append(names, n)
	}
	sortStrings(names)
	// unknown users, also with names outside US-ASCII (UTF-8 and plain high bytes)
	names = append(names, "mallory", "j\xc3\xbcrgen", "\xff\xfe", "m\x80llory")
	user := func() string { return rapid.SampledFrom(names).Draw(t, "user") }
	// users of the scope that have command rules (own or through a group): the command authorizer's
	// refusal and permission paths are reached only through them
	var ruled []string
	for _, n := range names {
		if eu, ok := w.Cfg.ScopeUsers(cfggen.ScopeA)[n]; ok {
			k := len(eu.User.Commands)
			for _, g := range eu.User.Groups {
				k += len(g.Commands)
			}
			if k > 0 {
				ruled = append(ruled, n)
			}
		}
	}
	// text for port / rem_addr: mostly plain, sometimes control or high bytes
	text := func(label, plain string) model.B {
		switch rapid.IntRange(0, 7).Draw(t, label+"_kind") {
		case 0:
			return model.B(rapid.SampledFrom([]string{"tty\xc3\xa9", "\x00\x01", "r\xffm", "100%", ""}).Draw(t, label))
		}
		return model.B(plain)
	}
	n := rapid.IntRange(1, 12).Draw(t, "nsteps")
	// pending authentication scripts per session slot
	pending := map[int][]authPkt{}
	for i := 0; i < n; i++ {
		s := c07Step{Sess: rapid.IntRange(0, len(c07Sessions)-1).Draw(t, "sess"), SeqMode: "next"}
		kind := rapid.SampledFrom([]string{"authen", "authen", "authen", "author-cmd", "author-cmd", "author-session", "author-session", "acct", "foreign-body", "corrupt", "giant-user", "seq", "bad-header", "oversize", "wrong-key", "max-seq"}).Draw(t, "kind")
		// mostly carry on with an exchange that is under way (on whichever session it is)
		var under []int
		for k := 0; k < len(c07Sessions); k++ {
			if len(pending[k]) > 0 {
				under = append(under, k)
			}
		}
		if len(under) > 0 {
			switch rapid.IntRange(0, 7).Draw(t, "continue_pending") {
			case 0, 1:
			case 2:
				// a sequence fault on a session that is in the middle of an exchange
				s.Sess = rapid.SampledFrom(under).Draw(t, "pending_sess")
				kind = "seq"
			default:
				s.Sess = rapid.SampledFrom(under).Draw(t, "pending_sess")
				kind = "authen-next"
			}
		}
		switch kind {
		case "authen":
			sc := genAuthScript(t, w, cfggen.ScopeA, 0)
			if len(sc.Pkts) == 0 {
				continue
			}
			s.Path, s.Type, s.Minor, s.Body = "authen:"+sc.Flavour, 1, sc.Pkts[0].Minor, sc.Pkts[0].body()
			pending[s.Sess] = sc.Pkts[1:]
		case "authen-next":
			p := pending[s.Sess][0]
			pending[s.Sess] = pending[s.Sess][1:]
			s.Path, s.Type, s.Minor, s.Body = "authen:follow-up", 1, p.Minor, p.body()
		case "giant-user":
			// an ASCII login whose user name arrives in a CONTINUE of up to 65520 bytes
			s.Path, s.Type, s.Body = "authen:ascii-start-for-giant", 1, model.AuthenStart{Action: 1, Priv: 1, AType: 1, Service: 1, Port: b("tty0"), RemAddr: b("r")}.Encode()
			sz := rapid.SampledFrom([]int{256, 4096, 65000, 65520, 65520}).Draw(t, "giant_size")
			pending[s.Sess] = []authPkt{cont(strings.Repeat("g", sz), 0), cont("pw-alpha", 0)}
		case "author-cmd", "author-session":
			var args []string
			if kind == "author-cmd" {
				args = []string{"service=shell", "cmd=" + rapid.SampledFrom([]string{"show", "configure", "ping"}).Draw(t, "cmd"), "cmd-arg=" + rapid.SampledFrom([]string{"terminal", "version", "x"}).Draw(t, "cmdarg")}
			} else {
				args = [][]string{{"service=shell", "cmd="}, {"service=ppp", "protocol=ip"}, {"service=junos-exec"}, {"service=shell", "cmd*"}, {"shell*"}, {}}[rapid.IntRange(0, 5).Draw(t, "sess_args")]
			}
			var margs []model.B
			for _, a := range args {
				margs = append(margs, model.B(a))
			}
			s.Path, s.Type = kind, 2
			u := user()
			if kind == "author-cmd" && len(ruled) > 0 && rapid.Bool().Draw(t, "user_with_rules") {
				u = rapid.SampledFrom(ruled).Draw(t, "ruled_user")
			}
			s.Body = model.AuthorRequest{Method: 6, Priv: 1, AType: 1, Service: 1, User: model.B(u), Port: text("port", "tty0"), RemAddr: text("rem", "r"), Args: margs}.Encode()
		case "acct":
			s.Path, s.Type = "acct", 3
			s.Body = model.AcctRequest{Flags: rapid.SampledFrom([]byte{2, 4, 8, 0x0a, 0x0c, 0, 3}).Draw(t, "acct_flags"), Method: 6, Priv: 1, AType: 1, Service: 1,
				User: model.B(user()), Port: text("port", "tty0"), RemAddr: text("rem", "r"), Args: []model.B{b("task_id=1"), model.B(rapid.SampledFrom([]string{"cmd=show 100%", "cmd=caf\xc3\xa9", "x"}).Draw(t, "acct_arg"))}}.Encode()
		case "foreign-body":
			// a well-formed body of another packet type under this header type
			s.Type = rapid.SampledFrom([]byte{1, 2, 3}).Draw(t, "hdr_type")
			bt := rapid.SampledFrom([]byte{1, 2, 3}).Draw(t, "body_type")
			s.Path = fmt.Sprintf("foreign-body:%d-under-%d", bt, s.Type)
			switch bt {
			case 1:
				s.Body = model.AuthenStart{Action: 1, Priv: 1, AType: 2, Service: 1, User: model.B(user()), Port: b("tty0"), RemAddr: b("r"), Data: b("pw-alpha")}.Encode()
			case 2:
				s.Body = model.AuthorRequest{Method: 6, Priv: 1, AType: 1, Service: 1, User: model.B(user()), Args: []model.B{b("service=shell"), b("cmd=")}}.Encode()
			default:
				s.Body = model.AcctRequest{Flags: 2, Method: 6, Priv: 1, AType: 1, Service: 1, User: model.B(user()), Args: []model.B{b("task_id=1")}}.Encode()
			}
		case "corrupt":
			s.Type = rapid.SampledFrom([]byte{1, 2, 3}).Draw(t, "hdr_type")
			s.Path = "corrupt"
			body := genRequestBody(t, s.Type)
			if len(body) > 0 {
				switch rapid.IntRange(0, 2).Draw(t, "corrupt_kind") {
				case 0:
					body = body[:rapid.IntRange(0, len(body)-1).Draw(t, "cut")]
				case 1:
					body[rapid.IntRange(0, min(len(body)-1, 10)).Draw(t, "pos")] = rapid.Byte().Draw(t, "val")
				default:
					body = append(body, rapid.SliceOfN(rapid.Byte(), 1, 5).Draw(t, "tail")...)
				}
			}
			s.Body = body
		case "seq":
			s.Path, s.Type, s.Body = "seq-violation", 1, model.AuthenContinue{UserMsg: b("x")}.Encode()
			s.SeqMode = rapid.SampledFrom([]string{"even", "replay", "jump", "one"}).Draw(t, "seq_mode")
		case "max-seq":
			s.Path, s.Type, s.SeqMode = "seq-255", 1, "max"
			s.Body = model.AuthenStart{Action: 1, Priv: 1, AType: 1, Service: 1, User: model.B(rapid.SampledFrom([]string{"", "alice"}).Draw(t, "u255")), Port: b("tty0"), RemAddr: b("r")}.Encode()
		case "bad-header":
			s.Path, s.Type, s.Body = "bad-header", 1, model.AuthenContinue{UserMsg: b("x")}.Encode()
			switch rapid.IntRange(0, 2).Draw(t, "hdr_kind") {
			case 0:
				s.Version = rapid.SampledFrom([]byte{0x00, 0xb0, 0xd1, 0xc2, 0xcf, 0xff}).Draw(t, "version")
			case 1:
				s.BadType = rapid.SampledFrom([]byte{0xff, 4, 5, 0x80}).Draw(t, "btype")
			default:
				s.Version, s.BadType = 0x10, 9
			}
		case "oversize":
			s.Path, s.Type = "oversize", 1
			s.Oversize = rapid.SampledFrom([]uint32{65537, 1 << 20, 0xffffffff}).Draw(t, "oversize")
		case "wrong-key":
			s.Path, s.Type, s.WrongKey = "wrong-key", rapid.SampledFrom([]byte{1, 2, 3}).Draw(t, "hdr_type"), true
			s.Body = genRequestBody(t, s.Type)
		}
		if s.Type == 0 {
			continue
		}
		s.Flags = rapid.SampledFrom([]byte{0, 0, 0, 0, 4, 1}).Draw(t, "flags")
		if len(s.Body) > 65536 {
			s.Body = s.Body[:65536]
		}
		s.Slow = rapid.IntRange(0, 7).Draw(t, "slow_handler") == 0
		if rapid.IntRange(0, 5).Draw(t, "pipelined") == 0 {
			s.Tail = rapid.SampledFrom([]string{"author", "bad-header", "even-seq"}).Draw(t, "tail")
		}
		c.Steps = append(c.Steps, s)
	}
	return c
}

func runC07(t failer, c c07Case) (paths []string) {
	ev.Eval()
	journal("C07", c)
	c.World.Cfg.Restore()
	fail := func(i int, sig, format string, args ...interface{}) {
		s := c.Steps[i]
		path := s.Path
		if k := strings.IndexByte(path, ':'); k > 0 && strings.HasPrefix(path, "foreign") {
			path = path[:k]
		}
		violation(t, "C07", "replies", "C07:"+sig+":"+path, c, "step %d (%s, type %d, seq mode %s): "+format, append([]interface{}{i, s.Path, s.Type, s.SeqMode}, args...)...)
	}
	if c.EmptyKey {
		ev.Class("scope-with-empty-shared-secret")
		for i := range c.World.Cfg.Secrets {
			if c.World.Cfg.Secrets[i].Name == cfggen.ScopeA {
				c.World.Cfg.Secrets[i].Secret.Key = ""
			}
		}
	}
	env, err := startRef(c.World.Cfg, refOpts{format: c.Format, keychain: refsrv.MapKeychain(c.World.KeychainBytes()), recover: true})
	if err != nil {
		ev.Class("config-refused")
		return nil
	}
	defer func() {
		if e := env.stop(); e != nil {
			t.Fatalf("%v", e)
		}
	}()
	d, err := env.dial(cfggen.AddrIn(cfggen.ScopeA, 7).IP(), 777)
	if err != nil {
		t.Fatalf("%v", err)
	}
	if d.c.Closed() {
		t.Fatalf("HARNESS-BUG: scope A does not serve")
	}
	key := []byte(cfggen.KeyA)
	if c.EmptyKey {
		key = []byte{}
	}
	// model of the session table: open sessions and the highest number seen in them
	open := map[uint32]int{}
	lastUsed := map[uint32]int{} // last sequence number this client used per session id (open or not)
	closed := false
	for i, s := range c.Steps {
		if closed {
			break
		}
		sid := c07Sessions[s.Sess]
		last, isOpen := open[sid]
		var seq int
		switch s.SeqMode {
		case "next":
			seq = 1
			if isOpen {
				seq = last + 1
				if seq%2 == 0 {
					seq++
				}
			}
		case "even":
			seq = 2
			if isOpen {
				seq = last + 2 - last%2 // next even number
			}
		case "replay":
			seq = lastUsed[sid]
			if seq == 0 {
				seq = 1
			}
		case "jump":
			seq = last + 21 - last%2
			if seq%2 == 0 {
				seq++
			}
		case "one":
			seq = 1
		case "max":
			seq = 255
		}
		if seq > 255 {
			seq = 255
		}
		h := model.Header{Version: 0xc0 | s.Minor, Type: s.Type, Seq: byte(seq), Flags: s.Flags, Session: sid}
		if s.Version != 0 {
			h.Version = s.Version
		}
		if s.BadType != 0 {
			h.Type = s.BadType
		}
		k := key
		if s.WrongKey {
			k = []byte("not-the-key")
		}
		wire := model.Frame(k, h, s.Body)
		seen := s.Body
		if s.WrongKey && s.Flags&model.FlagUnencrypted == 0 {
			hh := h
			hh.Length = uint32(len(s.Body))
			seen = model.Obfuscate(key, hh, wire[12:])
		}
		if s.Oversize != 0 {
			h.Length = s.Oversize
			wire = model.EncodeHeader(h)
		}
		// expectation
		headerOK := (h.Version == 0xc0 || h.Version == 0xc1) && h.Type >= 1 && h.Type <= 3 && s.Oversize == 0
		seqOK := seq%2 == 1 && (!isOpen || seq > last)
		class := model.Classify(h.Type, seen)
		if s.Flags&model.FlagUnencrypted != 0 {
			class = model.WellFormed
		}
		tailSid := uint32(0x7a110000 + i)
		if s.Tail != "" {
			ev.Class("pipelined:" + s.Tail)
			th := model.Header{Version: 0xc0, Type: 2, Seq: 1, Session: tailSid}
			switch s.Tail {
			case "bad-header":
				th.Version = 0xd0
			case "even-seq":
				th.Seq = 2
			}
			tb := model.AuthorRequest{Method: 6, Priv: 1, AType: 1, Service: 1, User: b("mallory"), Port: b("p"), RemAddr: b("r"), Args: []model.B{b("service=shell"), b("cmd=show")}}.Encode()
			wire = append(append([]byte{}, wire...), model.Frame(key, th, tb)...)
		}
		env.rec.Reset()
		d.c.LateWrites(s.Slow)
		if s.Slow {
			ev.Class("reply-written-late")
		}
		pkts, rest, nowClosed, err := d.send(wire)
		if err != nil {
			t.Fatalf("%v", err)
		}
		lastUsed[sid] = seq
		allCalls := env.rec.Calls()
		var calls []refsrv.Call
		tailCalls, tailFrames := 0, 0
		for _, cl := range allCalls {
			if s.Tail != "" && cl.Session == tailSid {
				tailCalls++
			} else {
				calls = append(calls, cl)
			}
		}
		frames := 0
		for _, p := range pkts {
			if s.Tail != "" && p.H.Session == tailSid {
				tailFrames++
			} else {
				frames++
			}
		}
		if len(rest) != 0 {
			frames++
		}
		for _, cl := range calls {
			if cl.Panic != "" {
				// a panicking handler cannot reply; that is C14's finding, reported there
				ev.Class("handler-panic")
				return paths
			}
		}
		rejected := !headerOK || !seqOK || (class == model.Mismatch)
		grey := headerOK && seqOK && class == model.Grey
		paths = append(paths, s.Path)
		switch {
		case rejected || (grey && len(calls) == 0):
			if rejected {
				ev.Class("rejected:" + map[bool]string{true: "header", false: map[bool]string{true: "sequence", false: "key-mismatch"}[!seqOK]}[!headerOK])
			}
			if len(calls) != 0 {
				fail(i, "rejected-reached-handler", "the request must be rejected (header ok=%v, sequence ok=%v, body class=%d) but %d handler invocation(s) happened", headerOK, seqOK, class, len(calls))
			}
			if frames+tailFrames > 1 || tailCalls != 0 {
				fail(i, "rejected-many-packets", "%d packets written for a rejected request (and %d handler invocations for the request that followed it in the same read)", frames+tailFrames, tailCalls)
			}
			if !nowClosed {
				fail(i, "rejected-not-closed", "the connection stayed open after a rejected request (header ok=%v, sequence ok=%v, body class=%d)", headerOK, seqOK, class)
			}
			closed = true
		default:
			if len(calls) != 1 {
				fail(i, "accepted-handler-count", "an acceptable request led to %d handler invocations (closed=%v, frames=%d)", len(calls), nowClosed, frames)
			}
			want := 1
			if seq == 255 {
				want = 0
			}
			if frames != want {
				sig := "no-reply"
				if frames > want {
					sig = "double-reply"
				}
				fail(i, sig, "%d reply packets written before the next read, expected %d (sequence number %d; handler made %d Reply and %d Write calls)", frames, want, seq, calls[0].Replies, calls[0].Writes)
			}
			switch s.Tail {
			case "":
				if nowClosed {
					fail(i, "accepted-closed", "connection closed after an acceptable request")
				}
			case "author":
				if nowClosed || tailCalls != 1 || tailFrames != 1 {
					fail(i, "pipelined-request-not-served", "an acceptable request that arrived in the same read as the one before it: %d handler invocations, %d replies, closed=%v", tailCalls, tailFrames, nowClosed)
				}
			default:
				if tailCalls != 0 || tailFrames > 1 || !nowClosed {
					fail(i, "rejected-reached-handler", "a request to be rejected (%s) that arrived in the same read as an acceptable one: %d handler invocations, %d packets, closed=%v", s.Tail, tailCalls, tailFrames, nowClosed)
				}
				closed = true
			}
			if calls[0].Nexts > 0 {
				open[sid] = seq + 1
				if seq == 255 {
					open[sid] = 255
				}
			} else {
				delete(open, sid)
			}
		}
	}
	return paths
}

func classifyC07(c c07Case, paths []string) {
	nt := false
	for _, p := range paths {
		ev.Class("path:" + p)
		switch {
		case p == "authen:ascii", p == "authen:pap", p == "author-cmd", p == "acct":
		default:
			nt = true
		}
	}
	if nt {
		ev.NonTrivial("c07", c.Steps)
	}
}

func TestC07(t *testing.T) {
	rapid.Check(t, func(rt *rapid.T) {
		c := genC07(rt)
		paths := runC07(rt, c)
		classifyC07(c, paths)
	})
}

func TestC07Regress(t *testing.T) {
	for _, s := range loadSaved(t, "C07") {
		var c c07Case
		mustUnmarshal(t, s, &c)
		runC07(t, c)
	}
}

// countingResponse is a tq.Response that only counts.
type countingResponse struct {
	replies  []tq.EncoderDecoder
	writes   int
	nexts    int
	contexts int
}

func (r *countingResponse) Reply(v tq.EncoderDecoder) (int, error) {
	r.replies = append(r.replies, v)
	return 0, nil
}
func (r *countingResponse) ReplyWithContext(ctx context.Context, v tq.EncoderDecoder, w ...tq.Writer) (int, error) {
	return r.Reply(v)
}
func (r *countingResponse) Write(p *tq.Packet) (int, error) { r.writes++; return 0, nil }
func (r *countingResponse) Next(next tq.Handler)            { r.nexts++ }
func (r *countingResponse) RegisterWriter(tq.Writer)        {}
func (r *countingResponse) Context(ctx context.Context)     { r.contexts++ }

// TestC07EnumStringy drives the exported stringy authorizer handler directly with requests naming
// another user than the one it is scoped to (the reference handlers never do that, another caller of
// the exported handler may): exactly one reply, and it is not a grant.
func TestC07EnumStringy(t *testing.T) {
	rules := []config.Command{{Name: "*", Action: config.PERMIT}}
	svcs := []config.Service{{Name: "shell", SetValues: []config.Value{{Name: "priv-lvl", Values: []string{"15"}}}}}
	for _, scoped := range []string{"alice", ""} {
		h, err := stringy.New(refsrv.NopLogger{}).New(config.User{Name: scoped, Scopes: []string{"sA"}, Commands: rules, Services: svcs})
		if err != nil {
			t.Fatalf("%v", err)
		}
		for _, named := range []string{"alice", "bob", "", "alice "} {
			for _, args := range [][]model.B{{b("service=shell"), b("cmd=show")}, {b("service=shell"), b("cmd=")}, {}} {
				ev.Eval()
				body := model.AuthorRequest{Method: 6, Priv: 1, AType: 1, Service: 1, User: model.B(named), Port: b("tty0"), RemAddr: b("r"), Args: args}.Encode()
				resp := &countingResponse{}
				h.Handle(resp, tq.Request{Header: tq.Header{Type: tq.Authorize, SeqNo: 1}, Body: body, Context: context.Background()})
				cse := map[string]interface{}{"scoped_user": scoped, "named_user": named, "args": args}
				if len(resp.replies)+resp.writes != 1 {
					violation(t, "C07", "stringy-direct", "C07:double-reply:stringy-direct", cse, "authorizer scoped to %q, request names %q: %d replies for one request", scoped, named, len(resp.replies)+resp.writes)
				}
				if named != scoped {
					ev.Class("stringy-direct:user-mismatch")
					if r, ok := resp.replies[0].(*tq.AuthorReply); !ok || r.Status == tq.AuthorStatusPassAdd || r.Status == tq.AuthorStatusPassRepl {
						violation(t, "C07", "stringy-direct", "C07:grant-for-other-user:stringy-direct", cse, "authorizer scoped to %q granted a request naming %q", scoped, named)
					}
				}
			}
		}
	}
}
