package harness

import (
	"bytes"
	"fmt"
	"strings"
	"testing"

	tq "github.com/facebookincubator/tacquito"
	"verif/harness/ev"
	"verif/harness/model"

	"pgregory.net/rapid"
)

// C06 — replies mirror the request: session, type, version, flags, seq+1 (1 for RESTART), true length,
// obfuscated exactly when the request was; a request numbered 255 gets no reply packet.

type c06Step struct {
	// FailFirst: before the real reply the handler attempts a reply that cannot be encoded (nothing is
	// sent for it); the reply that is sent must still be numbered request+1
	FailFirst string  `json:"fail_first,omitempty"` // "" | raw-error | long-arg | restart-error
	Kind      string  `json:"kind"`                 // authen | authen-restart | author | acct | raw
	Status    byte    `json:"status"`
	N         int     `json:"n"` // size of the variable part
	Tile      model.B `json:"tile"`
	// FlagsX / MinorX: this request's flag octet is the case's XOR FlagsX, its minor version flipped if
	// MinorX (a later request of an exchange need not repeat the first one's header): the reply mirrors
	// the request it answers
	FlagsX byte `json:"flags_x,omitempty"`
	MinorX bool `json:"minor_x,omitempty"`
}

type c06Case struct {
	Secret  model.B   `json:"secret"`
	Type    byte      `json:"type"`
	Minor   byte      `json:"minor"`
	Flags   byte      `json:"flags"`
	Session uint32    `json:"session"`
	Seq0    byte      `json:"seq0"` // first request's sequence number (odd)
	Steps   []c06Step `json:"steps"`
}

// replyValue builds the library value the handler replies with and the cleartext the model expects.
func (s c06Step) replyValue() (tq.EncoderDecoder, []byte) {
	txt := make([]byte, s.N)
	tile := s.Tile
	if len(tile) == 0 {
		tile = model.B{'x'}
	}
	for i := range txt {
		txt[i] = tile[i%len(tile)] & 0x7f
	}
	switch s.Kind {
	case "authen", "authen-restart":
		st := s.Status
		if s.Kind == "authen-restart" {
			st = 6
		}
		return tq.NewAuthenReply(tq.SetAuthenReplyStatus(tq.AuthenStatus(st)), tq.SetAuthenReplyServerMsg(string(txt))),
			model.AuthenReply{Status: st, ServerMsg: txt}.Encode()
	case "author":
		return tq.NewAuthorReply(tq.SetAuthorReplyStatus(tq.AuthorStatus(s.Status)), tq.SetAuthorReplyServerMsg(string(txt)), tq.SetAuthorReplyArgs("priv-lvl=15")),
			model.AuthorReply{Status: s.Status, ServerMsg: txt, Args: []model.B{b("priv-lvl=15")}}.Encode()
	case "acct":
		return tq.NewAcctReply(tq.SetAcctReplyStatus(tq.AcctReplyStatus(s.Status)), tq.SetAcctReplyServerMsg(string(txt))),
			model.AcctReply{Status: s.Status, ServerMsg: txt}.Encode()
	}
	raw := make([]byte, s.N)
	for i := range raw {
		raw[i] = tile[i%len(tile)]
	}
	return rawED{raw}, raw
}

func genC06(t *rapid.T) c06Case {
	c := c06Case{
		Secret:  genSecret(t, "secret"),
		Type:    rapid.SampledFrom([]byte{1, 2, 3}).Draw(t, "type"),
		Minor:   rapid.SampledFrom([]byte{0, 1}).Draw(t, "minor"),
		Flags:   rapid.OneOf(rapid.SampledFrom([]byte{0, 1, 4, 5}), rapid.Byte()).Draw(t, "flags"),
		Session: genSession(t),
	}
	depth := rapid.IntRange(1, 6).Draw(t, "depth")
	last := rapid.OneOf(rapid.SampledFrom([]int{1, 3, 251, 253, 255}), rapid.Map(rapid.IntRange(0, 127), func(i int) int { return 2*i + 1 })).Draw(t, "last_seq")
	if last < 2*depth-1 {
		last = 2*depth - 1
	}
	c.Seq0 = byte(last - 2*(depth-1))
	for i := 0; i < depth; i++ {
		kinds := []string{"authen", "author", "acct", "raw"}
		if i == depth-1 && last != 255 {
			// RESTART (reply numbered 1) in answer to 255 is left out: the statement's "no reply to
			// 255" and "1 for RESTART" pull in different directions there
			kinds = append(kinds, "authen-restart", "authen-restart")
		}
		s := c06Step{Kind: rapid.SampledFrom(kinds).Draw(t, "kind"), Tile: rapid.SliceOfN(rapid.Byte(), 1, 4).Draw(t, "tile")}
		switch s.Kind {
		case "authen":
			s.Status = rapid.SampledFrom([]byte{1, 2, 3, 4, 5, 7}).Draw(t, "status")
		case "author":
			s.Status = rapid.SampledFrom(authorStatuses).Draw(t, "status")
		case "acct":
			s.Status = rapid.SampledFrom(acctStatuses).Draw(t, "status")
		}
		s.N = rapid.OneOf(rapid.IntRange(0, 40), rapid.SampledFrom([]int{0, 1, 255, 256, 4096, 65500})).Draw(t, "n")
		s.FailFirst = rapid.SampledFrom([]string{"", "", "", "", "raw-error", "long-arg", "restart-error"}).Draw(t, "fail_first")
		if i > 0 && rapid.IntRange(0, 2).Draw(t, "header_changes") == 0 {
			s.FlagsX = rapid.OneOf(rapid.SampledFrom([]byte{0, 1, 4, 5}), rapid.Byte()).Draw(t, "flags_x")
			s.MinorX = rapid.Bool().Draw(t, "minor_x")
		}
		if s.Kind == "raw" && rapid.IntRange(0, 5).Draw(t, "rawmax") == 0 {
			s.N = rapid.SampledFrom([]int{65535, 65536}).Draw(t, "rawn")
		}
		c.Steps = append(c.Steps, s)
	}
	return c
}

func runC06(t failer, c c06Case) {
	ev.Eval()
	journal("C06", c)
	fail := func(sig, format string, args ...interface{}) {
		violation(t, "C06", "reply", "C06:"+sig, c, format, args...)
	}
	step := 0
	var self tq.HandlerFunc
	self = func(resp tq.Response, req tq.Request) {
		if step >= len(c.Steps) {
			return
		}
		v, _ := c.Steps[step].replyValue()
		if step < len(c.Steps)-1 {
			resp.Next(self)
		}
		switch c.Steps[step].FailFirst {
		case "raw-error":
			_, _ = resp.Reply(errED{})
		case "long-arg":
			_, _ = resp.Reply(tq.NewAuthorReply(tq.SetAuthorReplyStatus(tq.AuthorStatusPassAdd), tq.SetAuthorReplyArgs(strings.Repeat("a", 300))))
		case "restart-error":
			_, _ = resp.Reply(tq.NewAuthenReply(tq.SetAuthenReplyStatus(tq.AuthenStatus(0x63))))
		}
		step++
		_, _ = resp.Reply(v)
	}
	srv := startServer(nopLogger{}, staticSP{secret: nonNil(c.Secret), handler: self})
	conn, err := srv.connect(nil)
	if err != nil {
		t.Fatalf("%v", err)
	}
	d := &connDriver{c: conn}
	defer func() {
		if e := srv.stop(); e != nil {
			t.Fatalf("%v", e)
		}
	}()
	seq := c.Seq0
	for i, s := range c.Steps {
		rh := model.Header{Version: 0xc0 | c.Minor, Type: c.Type, Seq: seq, Flags: c.Flags ^ s.FlagsX, Session: c.Session}
		if s.MinorX {
			rh.Version ^= 1
		}
		if s.FlagsX != 0 || s.MinorX {
			ev.Class("later-request-changes-flags-or-version")
		}
		wire := model.Frame(c.Secret, rh, consistentBody(c.Type, 7, []byte{1}))
		pkts, rest, closed, err := d.send(wire)
		if err != nil {
			t.Fatalf("%v", err)
		}
		if closed {
			fail("connection-closed", "step %d: connection closed after a valid request (seq %d)", i, seq)
		}
		if len(rest) != 0 {
			fail("stray-bytes", "step %d: %d stray bytes after the reply packets", i, len(rest))
		}
		for _, p := range pkts {
			if p.H.Seq == 0 {
				fail("seq-zero-emitted", "step %d: a packet with sequence number 0 was written (request seq %d)", i, seq)
			}
		}
		if seq == 255 {
			if len(pkts) != 0 {
				fail("reply-to-255", "request numbered 255 received %d reply packet(s), first header %+v", len(pkts), pkts[0].H)
			}
			return
		}
		if len(pkts) != 1 {
			fail("reply-count", "step %d: %d reply packets for one handler reply", i, len(pkts))
		}
		_, clear := s.replyValue()
		got := pkts[0]
		want := rh
		want.Seq = seq + 1
		if s.Kind == "authen-restart" {
			want.Seq = 1
		}
		want.Length = uint32(len(clear))
		if got.H != want {
			fail("header-mismatch", "step %d: reply header %+v, expected %+v (request %+v)", i, got.H, want, rh)
		}
		wantBody := clear
		if rh.Flags&model.FlagUnencrypted == 0 {
			wantBody = model.Obfuscate(c.Secret, want, clear)
		}
		if !bytes.Equal(got.Body, wantBody) {
			fail("body-mismatch", "step %d: reply body is not the expected %s bytes (len %d vs %d, first difference at %d)", i,
				map[bool]string{true: "clear", false: "obfuscated"}[rh.Flags&model.FlagUnencrypted != 0], len(got.Body), len(wantBody), firstDiff(got.Body, wantBody))
		}
		seq += 2
	}
}

func (c c06Case) nontrivial() bool {
	last := int(c.Seq0) + 2*(len(c.Steps)-1)
	return c.Flags != 0 || c.Minor == 1 || len(c.Steps) >= 2 || last >= 253 || c.Steps[len(c.Steps)-1].Kind == "authen-restart"
}

func classifyC06(c c06Case) {
	last := int(c.Seq0) + 2*(len(c.Steps)-1)
	if last == 255 {
		ev.Class("last-seq-255")
	}
	if c.Flags&model.FlagUnencrypted != 0 {
		ev.Class("clear-flag")
	}
	if c.Flags&^5 != 0 {
		ev.Class("undefined-flag-bits")
	}
	ev.Class("type:" + string('0'+c.Type))
	for _, s := range c.Steps {
		ev.Class("reply:" + s.Kind)
		if s.FailFirst != "" {
			ev.Class("unencodable-reply-attempt-first:" + s.FailFirst)
		}
	}
	if len(c.Steps) >= 2 {
		ev.Class("depth>=2")
	}
	if c.nontrivial() {
		ev.NonTrivial("c06", c)
	}
}

func TestC06(t *testing.T) {
	rapid.Check(t, func(rt *rapid.T) {
		c := genC06(rt)
		runC06(rt, c)
		classifyC06(c)
	})
}

// TestC06Enum: every flag octet x every type x both minors; every odd sequence number.
func TestC06Enum(t *testing.T) {
	for flags := 0; flags < 256; flags++ {
		for typ := byte(1); typ <= 3; typ++ {
			kind := []string{"authen", "author", "acct"}[typ-1]
			c := c06Case{Secret: b("fooman"), Type: typ, Minor: byte(flags) & 1, Flags: byte(flags), Session: 0xa0b0c0d0, Seq0: 1,
				Steps: []c06Step{{Kind: kind, Status: 1, N: 20, Tile: b("ok")}}}
			runC06(t, c)
			classifyC06(c)
		}
	}
	for seq := 1; seq <= 255; seq += 2 {
		for _, kind := range []string{"authen", "raw", "authen-restart"} {
			if seq == 255 && kind == "authen-restart" {
				continue
			}
			c := c06Case{Secret: b("k"), Type: 1, Session: uint32(seq), Seq0: byte(seq), Steps: []c06Step{{Kind: kind, Status: 2, N: 3, Tile: b("z")}}}
			runC06(t, c)
			classifyC06(c)
		}
	}
}

func TestC06Regress(t *testing.T) {
	for _, s := range loadSaved(t, "C06") {
		var c c06Case
		mustUnmarshal(t, s, &c)
		runC06(t, c)
	}
}

// errED is an EncoderDecoder that cannot be encoded.
type errED struct{}

func (errED) MarshalBinary() ([]byte, error) { return nil, fmt.Errorf("cannot encode") }
func (errED) UnmarshalBinary([]byte) error   { return nil }
func (errED) Fields() map[string]string      { return nil }
