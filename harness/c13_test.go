package harness

import (
	"bytes"
	"context"
	"fmt"
	"net"
	"strings"
	"testing"

	tq "github.com/facebookincubator/tacquito"
	"verif/harness/cfggen"
	"verif/harness/ev"
	"verif/harness/model"

	"pgregory.net/rapid"
)

// C13 — admission: deny beats allow, first matching scope wins, users stay scoped.

type c13Probe struct {
	Addr model.B `json:"addr"` // 4 or 16 bytes
	// Zone: the remote address carries an IPv6 zone (a link-local peer, fe80::1%eth0); prefixes have no
	// zones, so it does not matter for admission
	Zone string `json:"zone,omitempty"`
}

type c13Case struct {
	Cfg    cfggen.Config `json:"cfg"`
	Format string        `json:"format"`
	Probes []c13Probe    `json:"probes"`
	// Cfg2, if set, is loaded into the running server after the probes; the same addresses are then
	// probed again and judged by Cfg2 (what an address was bound to before must not stick)
	Cfg2 *cfggen.Config `json:"cfg2,omitempty"`
	// FaultyKeys: the shared-secret keychain (the deployment's secure store) fails to produce these keys
	// at connection time.  An address whose first matching secret configuration is hit by that may be
	// refused or fall to the next matching one - but what it is bound to is always one configuration's
	// own secret, handler and users
	FaultyKeys []string `json:"faulty_keys,omitempty"`
}

var c13Prefixes = []string{
	"10.0.0.0/8", "10.1.0.0/16", "10.1.2.0/24", "10.1.2.3/32", "10.1.2.3/8", "0.0.0.0/0", "192.168.0.0/16", "10.128.0.0/9", "10.1.2.128/25",
	"::/0", "2001:db8::/32", "2001:db8:1::/48", "2001:db8:1:2::/64", "fe80::/10", "::1/128", "2001:db8:1::5/48",
	"::ffff:10.1.0.0/112", "::ffff:0:0/96",
	// same network address, different lengths
	"10.0.0.0/24", "10.0.0.0/16", "10.1.0.0/24", "10.1.2.0/25", "2001:db8::/48", "2001:db8::/64", "0.0.0.0/8", "::/8",
}

var c13Passwords = []string{"pw-alpha", "pw-bravo", "pw-charlie", "pw-delta"}

func genC13(t *rapid.T) c13Case {
	var c c13Case
	c.Format = rapid.SampledFrom([]string{"yaml", "yaml", "json"}).Draw(t, "format")
	c.Cfg = genC13Config(t)
	if rapid.IntRange(0, 2).Draw(t, "reload") == 0 {
		c2 := genC13Config(t)
		c.Cfg2 = &c2
	}
	if rapid.IntRange(0, 3).Draw(t, "keychain_fault") == 0 {
		for i := range c.Cfg.Secrets {
			if rapid.IntRange(0, 2).Draw(t, "key_fails") == 0 {
				c.FaultyKeys = append(c.FaultyKeys, c.Cfg.Secrets[i].Secret.Key)
			}
		}
	}
	// probes: edges of configured prefixes, in both byte forms for IPv4
	all := append([]string{}, c.Cfg.PrefixDeny...)
	all = append(all, c.Cfg.PrefixAllow...)
	for _, s := range c.Cfg.Secrets {
		all = append(all, s.Prefixes...)
	}
	if c.Cfg2 != nil {
		all = append(append(all, c.Cfg2.PrefixDeny...), c.Cfg2.PrefixAllow...)
		for _, s := range c.Cfg2.Secrets {
			all = append(all, s.Prefixes...)
		}
	}
	return genC13Probes(t, c, all)
}

func genC13Config(t *rapid.T) cfggen.Config {
	var c struct{ Cfg cfggen.Config }
	// mostly a handful of secret configurations, one time in five a long list (13 to 40)
	ns := rapid.OneOf(rapid.IntRange(1, 5), rapid.IntRange(1, 5), rapid.IntRange(1, 5), rapid.IntRange(1, 5), rapid.SampledFrom([]int{13, 14, 17, 24, 40})).Draw(t, "nscopes")
	for i := 0; i < ns; i++ {
		np := rapid.IntRange(1, 3).Draw(t, "nprefixes")
		var ps []string
		for j := 0; j < np; j++ {
			ps = append(ps, rapid.SampledFrom(c13Prefixes).Draw(t, "prefix"))
		}
		sec := cfggen.NewSecret(fmt.Sprintf("s%d", i), fmt.Sprintf("key-%d", i), ps...)
		// a secret configuration the reference server cannot serve (provider or handler type it does
		// not register, no usable prefix list) is passed over, whatever its prefixes say
		switch rapid.IntRange(0, 15).Draw(t, "odd_scope") {
		case 0:
			sec.Type = cfggen.ProviderDNS
		case 1:
			sec.Handler.Type = cfggen.HandlerSpan
		case 2:
			sec.Options["prefixes"] = "[]"
			sec.Prefixes = nil
		case 3:
			sec.Options["prefixes"] = "not json"
			sec.Prefixes = nil
		case 4:
			sec.SetPrefixes(append([]string{"not-a-prefix", "10.1.2.3"}, ps...))
		}
		c.Cfg.Secrets = append(c.Cfg.Secrets, sec)
	}
	// keychain entries are (group, key) pairs; in one configuration in four the first scopes use pairs that
	// are different entries (and different keys) but read the same once group and key are written one after
	// the other with a separator: (a, b/c/d), (a/b, c/d), (a/b/c, d)
	if ns >= 2 && rapid.IntRange(0, 3).Draw(t, "lookalike_keychain_entries") == 0 {
		sep := rapid.SampledFrom([]string{"/", "/", ":", ".", "-", "_", "|", " ", ""}).Draw(t, "entry_sep")
		tok := []string{"net", "core", "k1", "x"}
		for i := 0; i < ns && i < 3; i++ {
			c.Cfg.Secrets[i].Secret.Group = strings.Join(tok[:i+1], sep)
			c.Cfg.Secrets[i].Secret.Key = strings.Join(tok[i+1:], sep)
		}
	}
	// one configuration in six has a secret configuration whose shared secret is the empty string (legal:
	// the keychain hands out what the entry says)
	if rapid.IntRange(0, 5).Draw(t, "empty_shared_secret") == 0 {
		c.Cfg.Secrets[rapid.IntRange(0, ns-1).Draw(t, "empty_key_scope")].Secret.Key = ""
	}
	nu := rapid.IntRange(1, 5).Draw(t, "nusers")
	for i := 0; i < nu; i++ {
		u := cfggen.User{Name: rapid.SampledFrom([]string{"u0", "u1", "u2"}).Draw(t, "uname")}
		for s := 0; s < ns; s++ {
			if rapid.IntRange(0, 2).Draw(t, "inscope") != 0 {
				u.Scopes = append(u.Scopes, fmt.Sprintf("s%d", s))
			}
		}
		// the order in which a user lists its scopes need not be the order of the secret configurations
		if len(u.Scopes) > 1 && rapid.Bool().Draw(t, "reverse_scopes") {
			for a, z := 0, len(u.Scopes)-1; a < z; a, z = a+1, z-1 {
				u.Scopes[a], u.Scopes[z] = u.Scopes[z], u.Scopes[a]
			}
		}
		if rapid.IntRange(0, 5).Draw(t, "hasauth") != 0 {
			u.Authenticator = cfggen.BcryptAuth(rapid.SampledFrom(c13Passwords).Draw(t, "pw"))
		}
		c.Cfg.Users = append(c.Cfg.Users, u)
	}
	// the unmarshaller refuses a document without users; keep at least one user assigned somewhere
	list := func(label string) []string {
		var out []string
		if rapid.IntRange(0, 2).Draw(t, label+"_present") == 0 {
			n := rapid.IntRange(1, 3).Draw(t, label+"_n")
			for i := 0; i < n; i++ {
				out = append(out, rapid.SampledFrom(c13Prefixes).Draw(t, label))
			}
		}
		return out
	}
	c.Cfg.PrefixDeny = list("deny")
	c.Cfg.PrefixAllow = list("allow")
	return c.Cfg
}

func genC13Probes(t *rapid.T, c c13Case, all []string) c13Case {
	np := rapid.IntRange(1, 6).Draw(t, "nprobes")
	for i := 0; i < np; i++ {
		var a cfggen.Addr
		if len(all) == 0 || rapid.IntRange(0, 4).Draw(t, "probe_kind") == 0 {
			a = cfggen.Addr(rapid.SampledFrom([][]byte{{10, 1, 2, 3}, {10, 200, 0, 1}, {192, 168, 1, 1}, {8, 8, 8, 8}, net.ParseIP("2001:db8:1:2::9").To16(), net.ParseIP("::1").To16(), net.ParseIP("fe80::1").To16(), net.ParseIP("2600::1").To16()}).Draw(t, "fixed_addr"))
		} else {
			p, ok := cfggen.ParsePrefix(rapid.SampledFrom(all).Draw(t, "probe_prefix"))
			if !ok {
				continue
			}
			a = rapid.SampledFrom(p.Edges()).Draw(t, "edge")
			if p.Mapped {
				// also probe a mapped prefix through plain IPv4 bytes
				if rapid.Bool().Draw(t, "as_v4") {
					a = a[12:]
				}
			}
		}
		if len(a) == 4 && rapid.Bool().Draw(t, "mapped_form") {
			a = append(append([]byte{}, 0, 0, 0, 0, 0, 0, 0, 0, 0, 0, 0xff, 0xff), a...)
		}
		pr := c13Probe{Addr: model.B(a)}
		if len(a) == 16 && rapid.IntRange(0, 2).Draw(t, "zoned") == 0 {
			pr.Zone = rapid.SampledFrom([]string{"eth0", "2"}).Draw(t, "zone")
		}
		c.Probes = append(c.Probes, pr)
	}
	return c
}

func runC13(t failer, c c13Case) {
	ev.Eval()
	journal("C13", c)
	c.Cfg.Restore()
	fail := func(sig, format string, args ...interface{}) {
		violation(t, "C13", "admission", "C13:"+sig, c, format, args...)
	}
	env, err := startRef(c.Cfg, refOpts{format: c.Format, faultyKeys: c.FaultyKeys})
	if err != nil {
		// refused by the unmarshaller (no users / no secrets): nothing to admit to
		ev.Class("config-refused")
		return
	}
	defer func() {
		if e := env.stop(); e != nil {
			t.Fatalf("%v", e)
		}
	}()
	session := uint32(100)
	cfgs := []cfggen.Config{c.Cfg}
	if c.Cfg2 != nil {
		c.Cfg2.Restore()
		cfgs = append(cfgs, *c.Cfg2)
	}
	for phase, cfg := range cfgs {
		if phase == 1 {
			doc := cfg.YAML()
			if c.Format == "json" {
				doc = cfg.JSON()
			}
			if err := env.stack.Reload(doc); err != nil {
				ev.Class("reload-refused")
				return
			}
			ev.Class("same-addresses-probed-after-reload")
		}
		runC13Probes(t, c, cfg, env, &session, phase, fail)
	}
}

func runC13Probes(t failer, cc c13Case, cfg cfggen.Config, env *refEnv, sessionp *uint32, phase int, fail func(sig, format string, args ...interface{})) {
	c := struct {
		Cfg    cfggen.Config
		Probes []c13Probe
	}{cfg, cc.Probes}
	session := *sessionp
	defer func() { *sessionp = session }()
	// the model's view when key lookups fail: the secret configurations hit by it are passed over
	strict := cfg
	if len(cc.FaultyKeys) > 0 {
		ev.Class("keychain-fault-injected")
		m := cfg.Clone()
		for i := range m.Secrets {
			for _, k := range cc.FaultyKeys {
				if m.Secrets[i].Secret.Key == k {
					m.Secrets[i].Type = cfggen.ProviderDNS
				}
			}
		}
		c.Cfg = m
	}
	for pi, p := range c.Probes {
		pi := pi + 100*phase
		a := cfggen.Addr(p.Addr)
		adm := c.Cfg.Admit(a)
		// lenient: the fault decides between refusal and the next matching configuration
		lenient := !adm.Grey && strict.Admit(a).Scope != adm.Scope
		remote := &net.TCPAddr{IP: a.IP(), Port: 5000 + pi, Zone: p.Zone}
		if p.Zone != "" {
			ev.Class("probe:address-with-zone")
		}
		secret, handler, gerr := env.stack.Loader.Get(context.Background(), remote)
		served := gerr == nil && secret != nil && handler != nil
		if adm.Grey {
			ev.Class("probe:grey(mapped)")
			continue
		}
		ev.Class("probe:" + adm.Why)
		matching := c.Cfg.MatchingScopes(a)
		if matching >= 2 {
			ev.Class("probe:matched-by>=2-scopes")
		}
		if c.Cfg.InDeny(a) && c.Cfg.InAllow(a) {
			ev.Class("probe:in-deny-and-allow")
		}
		if adm.Scope < 0 && lenient && !served {
			continue
		}
		if adm.Scope < 0 {
			if served {
				fail("refused-address-served", "address %v must be refused (%s) but Get returned a secret %q and a handler", a.IP(), adm.Why, secret)
			}
			// at server level: closed, nothing written, no handler
			before := len(env.rec.Calls())
			d, err := env.dialZone(a.IP(), 6000+pi, p.Zone)
			if err != nil {
				t.Fatalf("%v", err)
			}
			if !d.c.AwaitClosed(watchdog) {
				fail("refused-connection-open", "connection from refused address %v was not closed", a.IP())
			}
			if out, _ := d.c.Written(); len(out) != 0 {
				fail("refused-connection-written", "%d bytes written to a refused connection", len(out))
			}
			if len(env.rec.Calls()) != before {
				fail("refused-connection-handled", "a handler ran for a refused connection")
			}
			continue
		}
		sc := c.Cfg.Secrets[adm.Scope]
		if !served && lenient {
			ev.Class("probe:refused-because-of-keychain-fault")
			continue
		}
		if !served {
			fail("admissible-address-refused", "address %v belongs to scope %s but Get failed: %v", a.IP(), sc.Name, gerr)
		}
		if !bytes.Equal(secret, []byte(sc.Secret.Key)) {
			fail("wrong-secret", "address %v: bound to secret %q, the first matching scope %s has %q", a.IP(), secret, sc.Name, sc.Secret.Key)
		}
		// the user set behind the handler is that of the scope: PAP probes with every credential
		d, err := env.dialZone(a.IP(), 7000+pi, p.Zone)
		if err != nil {
			t.Fatalf("%v", err)
		}
		if d.c.Closed() {
			fail("admissible-address-refused", "connection from %v (scope %s) was closed at once", a.IP(), sc.Name)
		}
		users := c.Cfg.ScopeUsers(sc.Name)
		for _, name := range []string{"u0", "u1", "u2"} {
			for _, pw := range c13Passwords {
				session++
				st, pkts, closed, err := papLogin(d, []byte(sc.Secret.Key), session, name, pw)
				if err != nil {
					t.Fatalf("%v", err)
				}
				if closed || len(pkts) != 1 {
					fail("probe-no-reply", "scope %s: PAP probe %s/%s got %d packets, closed=%v", sc.Name, name, pw, len(pkts), closed)
				}
				u, exists := users[name]
				want := exists && u.Authn != nil && u.Authn.Type == cfggen.AuthnBcrypt && u.Authn.Options["hash"] == cfggen.Hashes[pw]
				if want && st != 1 {
					fail("scoped-user-rejected", "scope %s: user %s with its own password %s answered status %d, not PASS", sc.Name, name, pw, st)
				}
				if !want && st == 1 {
					fail("foreign-credential-accepted", "scope %s: user %s / password %s answered PASS although that credential is not this scope's", sc.Name, name, pw)
				}
			}
		}
	}
}

func classifyC13(c c13Case) {
	c.Cfg.Restore()
	all := append([]string{}, c.Cfg.PrefixDeny...)
	all = append(all, c.Cfg.PrefixAllow...)
	for _, s := range c.Cfg.Secrets {
		all = append(all, s.Prefixes...)
	}
	nt := false
	if len(c.Cfg.Secrets) >= 2 && c.Cfg.Secrets[0].Secret.Group == "net" {
		ev.Class("keychain-entries-that-read-alike")
	}
	for _, p := range c.Probes {
		a := cfggen.Addr(p.Addr)
		if c.Cfg.Admit(a).Grey {
			continue
		}
		if c.Cfg.MatchingScopes(a) >= 2 || (c.Cfg.InDeny(a) && c.Cfg.InAllow(a)) {
			nt = true
		}
		for _, ps := range all {
			if px, ok := cfggen.ParsePrefix(ps); ok {
				for _, e := range px.Edges() {
					if bytes.Equal(e, a) || (len(a) == 16 && len(e) == 4 && bytes.Equal(a[12:], e)) || (len(a) == 4 && len(e) == 16 && bytes.Equal(e[12:], a)) {
						nt = true
						ev.Class("probe:prefix-boundary")
					}
				}
			}
		}
		if len(a) == 16 && bytes.Equal(a[:12], []byte{0, 0, 0, 0, 0, 0, 0, 0, 0, 0, 0xff, 0xff}) {
			ev.Class("probe:ipv4-mapped-form")
		}
	}
	if len(c.Cfg.PrefixDeny) > 0 {
		ev.Class("cfg:deny-list")
	}
	if len(c.Cfg.PrefixAllow) > 0 {
		ev.Class("cfg:allow-list")
	}
	ev.Class("format:" + c.Format)
	if nt {
		ev.NonTrivial("c13", c)
	}
}

func TestC13(t *testing.T) {
	rapid.Check(t, func(rt *rapid.T) {
		c := genC13(rt)
		runC13(rt, c)
		classifyC13(c)
	})
}

func TestC13Regress(t *testing.T) {
	for _, s := range loadSaved(t, "C13") {
		var c c13Case
		mustUnmarshal(t, s, &c)
		runC13(t, c)
	}
}

// errSP refuses every connection with an error while still returning a secret and a handler, as a
// provider may: the server must go by the error.
type errSP struct{ staticSP }

func (s errSP) Get(ctx context.Context, remote net.Addr) ([]byte, tq.Handler, error) {
	sec, h, _ := s.staticSP.Get(ctx, remote)
	return sec, h, fmt.Errorf("refused by provider")
}

// TestC13EnumLib: at library level, a provider error means refusal regardless of what else it returns.
func TestC13EnumLib(t *testing.T) {
	for i := 0; i < 20; i++ {
		ev.Eval()
		rh := &recHandler{}
		srv := startServer(nopLogger{}, errSP{staticSP{secret: []byte("k"), handler: rh}})
		conn, err := srv.connect(&net.TCPAddr{IP: net.IPv4(10, 0, 0, byte(i)), Port: 1})
		if err != nil {
			t.Fatalf("%v", err)
		}
		conn.Feed(model.Frame([]byte("k"), model.Header{Version: 0xc0, Type: 1, Seq: 1, Session: 1}, consistentBody(1, 8, nil)))
		if !conn.AwaitClosed(watchdog) {
			violation(t, "C13", "admission", "C13:refused-connection-open", map[string]int{"i": i}, "connection refused by the provider (error) was served")
		}
		_ = srv.stop()
		if out, _ := conn.Written(); len(out) != 0 || len(rh.requests()) != 0 {
			violation(t, "C13", "admission", "C13:refused-connection-handled", map[string]int{"i": i}, "provider returned an error but the connection was handled (%d bytes written, %d handler calls)", len(out), len(rh.requests()))
		}
		ev.Class("lib:provider-error")
	}
}
