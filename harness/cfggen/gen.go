package cfggen

import (
	"encoding/hex"
	"strings"

	"pgregory.net/rapid"
)

// Generators for AAA-oriented configurations: two scopes with disjoint prefixes, a handful of user
// entries over a small name pool (so that the same name appears in both scopes with different
// credentials), every authenticator/accounter variant the loader accepts.

var (
	Long255 = "u" + strings.Repeat("x", 254)
	Long129 = "v" + strings.Repeat("y", 128)
	// UserNames is the pool user entries draw from.
	// (the last six read as something other than a string to a careless parser)
	UserNames = []string{"alice", "bob", "carol", Long255, Long129, "alice", "bob", "true", "null", "0", "~", "1e3", "no"}
	// Passwords that have a precomputed hash.
	Passwords = []string{"pw-alpha", "pw-bravo", "pw-charlie", "pw-delta", "pw-echo", "pw-foxtrot", "p", "password", "pass word%d\"\\", ""}
)

// ScopeA/ScopeB are the two standard scopes.
const (
	ScopeA, KeyA, PrefixA = "sA", "key-A", "10.1.0.0/16"
	ScopeB, KeyB, PrefixB = "sB", "key-B", "10.2.0.0/16"
)

// World is a configuration plus what the harness injects next to it.
type World struct {
	Cfg      Config            `json:"cfg"`
	Keychain map[string]string `json:"keychain"` // user name -> hex of the bcrypt hash the keychain returns
}

// KeychainBytes converts the keychain for refsrv.MapKeychain / Verifies.
func (w World) KeychainBytes() map[string][]byte {
	out := map[string][]byte{}
	for k, v := range w.Keychain {
		b, _ := hex.DecodeString(v)
		out[k] = b
	}
	return out
}

// AddrIn returns an address inside the given standard scope.
func AddrIn(scope string, host byte) Addr {
	if scope == ScopeB {
		return Addr{10, 2, 0, host}
	}
	return Addr{10, 1, 0, host}
}

// GenAuthenticator draws one authenticator variant for user name; it may add a keychain entry.
// The password the credential corresponds to ("" with ok=false if none can verify) is returned.
func GenAuthenticator(t *rapid.T, name string, kc map[string]string) (*Authenticator, string) {
	pw := rapid.SampledFrom(Passwords).Draw(t, "password")
	switch rapid.IntRange(0, 14).Draw(t, "authn_variant") {
	case 0:
		return nil, ""
	case 1:
		return &Authenticator{Type: AuthnBcrypt, Options: map[string]string{"hash": "zz-not-hex"}}, ""
	case 2:
		kc[name] = Hashes[pw]
		return &Authenticator{Type: AuthnBcrypt, Options: map[string]string{"key": name, "group": "g"}}, pw
	case 3:
		return &Authenticator{Type: AuthnBcrypt, Options: map[string]string{"key": "nobody"}}, ""
	case 4:
		if rapid.Bool().Draw(t, "kc_entry") {
			kc[name] = Hashes[pw]
		}
		return &Authenticator{Type: AuthnBcrypt}, pw
	case 5:
		return &Authenticator{Type: AuthnSHA512, Options: map[string]string{"hash": Hashes[pw]}}, ""
	case 6:
		return &Authenticator{Type: 99}, ""
	case 7:
		// valid hex, but what it decodes to is no bcrypt hash
		return &Authenticator{Type: AuthnBcrypt, Options: map[string]string{"hash": rapid.SampledFrom([]string{"2432", "636973636f", "243261243034", Hashes[pw][:60]}).Draw(t, "bad_hash")}}, ""
	case 8:
		// the keychain answers, but not with a bcrypt hash (the reference main.go's keychain returns "cisco")
		kc[name] = "636973636f"
		return &Authenticator{Type: AuthnBcrypt, Options: map[string]string{"key": name}}, ""
	case 9:
		// a well-formed hash with something behind it (a trailing newline from the tool that produced it,
		// two hashes pasted together): valid hex, longer than a bcrypt hash
		return &Authenticator{Type: AuthnBcrypt, Options: map[string]string{"hash": Hashes[pw] + rapid.SampledFrom([]string{"0a", "00", "0d0a", Hashes[pw]}).Draw(t, "hash_tail")}}, ""
	default:
		return BcryptAuth(pw), pw
	}
}

// GenAccounter draws an accounter variant.
func GenAccounter(t *rapid.T) *Accounter {
	switch rapid.IntRange(0, 5).Draw(t, "acct_variant") {
	case 0:
		return nil
	case 1:
		return &Accounter{Name: "syslog", Type: AcctSyslog}
	case 2:
		return &Accounter{Name: "odd", Type: 42, Options: map[string]string{"x": "y"}}
	default:
		return FileAccounter()
	}
}

// SimpleCommands / SimpleServices give users something to authorise against (C11 has its own, richer generator).
func SimpleCommands(t *rapid.T) []Command {
	n := rapid.IntRange(0, 3).Draw(t, "ncmds")
	var out []Command
	for i := 0; i < n; i++ {
		c := Command{
			Name: rapid.SampledFrom([]string{"show", "configure", "*", "ping"}).Draw(t, "cmd_name"),
			// 0 = the entry has no action key, 7 = a number that is neither permit nor deny
			Action: rapid.SampledFrom([]int{ActionPermit, ActionPermit, ActionDeny, ActionPermit, ActionDeny, 0, 7}).Draw(t, "cmd_action"),
		}
		nm := rapid.IntRange(0, 2).Draw(t, "nmatch")
		for j := 0; j < nm; j++ {
			c.Match = append(c.Match, rapid.SampledFrom([]string{"terminal", "version", ".*", "ver.*", "(", "terminal|exclusive"}).Draw(t, "match"))
		}
		out = append(out, c)
	}
	return out
}

func SimpleServices(t *rapid.T) []Service {
	n := rapid.IntRange(0, 2).Draw(t, "nsvcs")
	var out []Service
	for i := 0; i < n; i++ {
		s := Service{Name: rapid.SampledFrom([]string{"shell", "ppp", "junos-exec"}).Draw(t, "svc_name")}
		nv := rapid.IntRange(0, 2).Draw(t, "nvalues")
		for j := 0; j < nv; j++ {
			s.SetValues = append(s.SetValues, Value{
				Name: rapid.SampledFrom([]string{"priv-lvl", "local-user-name", "shell:roles"}).Draw(t, "val_name"),
				// the last two cannot go on the wire as an argument (longer than 255 octets, not US-ASCII)
				Values:   []string{rapid.SampledFrom([]string{"15", "admin", "network-admin vdc-admin", "1", "15", "admin", strings.Repeat("v", 300), "gr\u00fc\u00df dich"}).Draw(t, "val")},
				Optional: rapid.Bool().Draw(t, "val_opt"),
			})
		}
		if rapid.IntRange(0, 3).Draw(t, "svc_match") == 0 {
			s.Match = []Value{{Name: "protocol", Values: []string{"ip"}}}
		}
		out = append(out, s)
	}
	return out
}

// GenWorld draws a two-scope AAA configuration.
func GenWorld(t *rapid.T) World {
	w := World{Keychain: map[string]string{}}
	w.Cfg.Secrets = []Secret{NewSecret(ScopeA, KeyA, PrefixA), NewSecret(ScopeB, KeyB, PrefixB)}
	n := rapid.IntRange(1, 5).Draw(t, "nusers")
	for i := 0; i < n; i++ {
		u := User{Name: rapid.SampledFrom(UserNames).Draw(t, "user_name")}
		switch rapid.IntRange(0, 6).Draw(t, "user_scopes") {
		case 0:
			u.Scopes = []string{ScopeB}
		case 1:
			u.Scopes = []string{ScopeA, ScopeB}
		case 6:
			u.Scopes = []string{ScopeB, ScopeA} // not in the order of the secret configurations
		case 2:
			u.Scopes = nil
		default:
			u.Scopes = []string{ScopeA}
		}
		u.Authenticator, _ = GenAuthenticator(t, u.Name, w.Keychain)
		u.Accounter = GenAccounter(t)
		u.Commands = SimpleCommands(t)
		u.Services = SimpleServices(t)
		ng := rapid.IntRange(0, 2).Draw(t, "ngroups")
		for g := 0; g < ng; g++ {
			grp := Group{Name: rapid.SampledFrom([]string{"noc", "ops"}).Draw(t, "group_name")}
			if rapid.Bool().Draw(t, "group_has_authn") {
				grp.Authenticator, _ = GenAuthenticator(t, u.Name, w.Keychain)
			}
			if rapid.Bool().Draw(t, "group_has_acct") {
				grp.Accounter = GenAccounter(t)
			}
			if rapid.Bool().Draw(t, "group_has_cmds") {
				grp.Commands = SimpleCommands(t)
				grp.Services = SimpleServices(t)
			}
			u.Groups = append(u.Groups, grp)
		}
		w.Cfg.Users = append(w.Cfg.Users, u)
	}
	// the unmarshaller refuses documents without users in any scope only if the list is empty; a scope
	// that ends up without users is skipped by the loader, so make sure scope A serves
	hasA := false
	for _, u := range w.Cfg.Users {
		for _, s := range u.Scopes {
			if s == ScopeA {
				hasA = true
			}
		}
	}
	if !hasA {
		w.Cfg.Users = append(w.Cfg.Users, User{Name: "zed", Scopes: []string{ScopeA, ScopeB}, Authenticator: BcryptAuth("pw-foxtrot"), Accounter: FileAccounter()})
	}
	return w
}

// CorrectPassword returns a password that verifies for the user in the scope, if any of the pool does.
func (w World) CorrectPassword(scope, name string) (string, bool) {
	u, ok := w.Cfg.ScopeUsers(scope)[name]
	if !ok {
		return "", false
	}
	kc := w.KeychainBytes()
	for _, p := range Passwords {
		if u.Verifies(p, kc) {
			return p, true
		}
	}
	return "", false
}
