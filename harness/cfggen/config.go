// Package cfggen is the harness' own model of a tacquito server configuration: plain structs with the
// documented key names, renderers to YAML and JSON, rapid generators and independent evaluators of the
// documented admission, authentication and authorization semantics.
package cfggen

import (
	"encoding/json"

	"gopkg.in/yaml.v3"
)

const (
	ActionDeny   = 1
	ActionPermit = 2

	AuthnBcrypt = 1
	AuthnSHA512 = 2 // declared by the library, no factory registered by the reference server

	AcctStderr = 1
	AcctSyslog = 2
	AcctFile   = 3

	ProviderPrefix = 1
	ProviderDNS    = 2
	HandlerStart   = 1
	HandlerSpan    = 2
)

type Value struct {
	Name     string   `yaml:"name" json:"name"`
	Values   []string `yaml:"values,omitempty" json:"values,omitempty"`
	Optional bool     `yaml:"is_optional" json:"is_optional"`
}

type Service struct {
	Name      string  `yaml:"name" json:"name"`
	Match     []Value `yaml:"match,omitempty" json:"match,omitempty"`
	SetValues []Value `yaml:"set_values,omitempty" json:"set_values,omitempty"`
	Optional  bool    `yaml:"is_optional" json:"is_optional"`
}

type Command struct {
	Name   string   `yaml:"name" json:"name"`
	Match  []string `yaml:"match,omitempty" json:"match,omitempty"`
	Action int      `yaml:"action" json:"action"`
}

type Authenticator struct {
	Type    int               `yaml:"type" json:"type"`
	Options map[string]string `yaml:"options,omitempty" json:"options,omitempty"`
}

type Accounter struct {
	Name    string            `yaml:"name" json:"name"`
	Type    int               `yaml:"type" json:"type"`
	Options map[string]string `yaml:"options,omitempty" json:"options,omitempty"`
}

type Group struct {
	Name          string         `yaml:"name" json:"name"`
	Services      []Service      `yaml:"services,omitempty" json:"services,omitempty"`
	Commands      []Command      `yaml:"commands,omitempty" json:"commands,omitempty"`
	Authenticator *Authenticator `yaml:"authenticator,omitempty" json:"authenticator,omitempty"`
	Accounter     *Accounter     `yaml:"accounter,omitempty" json:"accounter,omitempty"`
}

type User struct {
	Name          string         `yaml:"name" json:"name"`
	Scopes        []string       `yaml:"scopes,omitempty" json:"scopes,omitempty"`
	Groups        []Group        `yaml:"groups,omitempty" json:"groups,omitempty"`
	Services      []Service      `yaml:"services,omitempty" json:"services,omitempty"`
	Commands      []Command      `yaml:"commands,omitempty" json:"commands,omitempty"`
	Authenticator *Authenticator `yaml:"authenticator,omitempty" json:"authenticator,omitempty"`
	Accounter     *Accounter     `yaml:"accounter,omitempty" json:"accounter,omitempty"`
}

type Keychain struct {
	Group string `yaml:"group" json:"group"`
	Key   string `yaml:"key" json:"key"`
}

type HandlerRef struct {
	Type    int               `yaml:"type" json:"type"`
	Options map[string]string `yaml:"options,omitempty" json:"options,omitempty"`
}

// Secret is one secret configuration ("scope").
type Secret struct {
	Name    string            `yaml:"name" json:"name"`
	Secret  Keychain          `yaml:"secret" json:"secret"`
	Handler HandlerRef        `yaml:"handler" json:"handler"`
	Type    int               `yaml:"type" json:"type"`
	Options map[string]string `yaml:"options,omitempty" json:"options,omitempty"`
	// Prefixes is the harness' view of options["prefixes"] (kept in sync by SetPrefixes)
	Prefixes []string `yaml:"-" json:"-"`
}

// Config is a whole server configuration document.
type Config struct {
	Secrets     []Secret `yaml:"secrets,omitempty" json:"secrets,omitempty"`
	Users       []User   `yaml:"users,omitempty" json:"users,omitempty"`
	PrefixDeny  []string `yaml:"prefix_deny,omitempty" json:"prefix_deny,omitempty"`
	PrefixAllow []string `yaml:"prefix_allow,omitempty" json:"prefix_allow,omitempty"`
	// Extra: keys the harness' model does not know but the tree under test does (see ExtraKey); always
	// empty on the unchanged tree
	Extra []ExtraKey `yaml:"-" json:"extra_keys,omitempty"`
}

// ExtraKey is a key of the configuration schema that this model does not have: the tree under test has
// grown a field (Kind names the library's struct: User, Group, Command, Service, Value, Authenticator,
// Accounter, SecretConfig, Handler, Keychain, ServerConfig) or reads an option the unchanged tree does not
// (Kind "Authenticator.options", "Accounter.options", "SecretConfig.options").  The renderers write it into
// every object of that kind.
type ExtraKey struct {
	Kind  string      `json:"kind"`
	Key   string      `json:"key"`
	Value interface{} `json:"value"`
}

// generic returns the document as nested maps with the extra keys written in.
func (c Config) generic() map[string]interface{} {
	b, err := json.Marshal(c)
	if err != nil {
		panic(err)
	}
	var doc map[string]interface{}
	if err := json.Unmarshal(b, &doc); err != nil {
		panic(err)
	}
	delete(doc, "extra_keys")
	apply := func(kind string, v interface{}) {
		obj, ok := v.(map[string]interface{})
		if !ok {
			return
		}
		for _, e := range c.Extra {
			switch e.Kind {
			case kind:
				obj[e.Key] = e.Value
			case kind + ".options":
				opts, _ := obj["options"].(map[string]interface{})
				if opts == nil {
					opts = map[string]interface{}{}
					obj["options"] = opts
				}
				opts[e.Key] = e.Value
			}
		}
	}
	each := func(v interface{}, f func(interface{})) {
		if l, ok := v.([]interface{}); ok {
			for _, x := range l {
				f(x)
			}
		}
	}
	aaa := func(v interface{}) {
		o, ok := v.(map[string]interface{})
		if !ok {
			return
		}
		each(o["commands"], func(x interface{}) { apply("Command", x) })
		each(o["services"], func(x interface{}) {
			apply("Service", x)
			if sv, ok := x.(map[string]interface{}); ok {
				each(sv["match"], func(y interface{}) { apply("Value", y) })
				each(sv["set_values"], func(y interface{}) { apply("Value", y) })
			}
		})
		apply("Authenticator", o["authenticator"])
		apply("Accounter", o["accounter"])
	}
	apply("ServerConfig", doc)
	each(doc["secrets"], func(x interface{}) {
		apply("SecretConfig", x)
		if sc, ok := x.(map[string]interface{}); ok {
			apply("Keychain", sc["secret"])
			apply("Handler", sc["handler"])
		}
	})
	each(doc["users"], func(x interface{}) {
		apply("User", x)
		aaa(x)
		if u, ok := x.(map[string]interface{}); ok {
			each(u["groups"], func(g interface{}) { apply("Group", g); aaa(g) })
		}
	})
	return doc
}

// NewSecret builds a prefix-type scope served by the START handler.
func NewSecret(name, key string, prefixes ...string) Secret {
	s := Secret{Name: name, Secret: Keychain{Group: "tacquito", Key: key}, Handler: HandlerRef{Type: HandlerStart}, Type: ProviderPrefix}
	s.SetPrefixes(prefixes)
	return s
}

// SetPrefixes stores the prefixes the way the prefix provider expects them: a JSON list in a string option.
func (s *Secret) SetPrefixes(p []string) {
	s.Prefixes = append([]string{}, p...)
	b, _ := json.Marshal(s.Prefixes)
	if s.Options == nil {
		s.Options = map[string]string{}
	}
	s.Options["prefixes"] = string(b)
}

// Restore recomputes Prefixes after a JSON round trip of a saved case.
func (c *Config) Restore() {
	for i := range c.Secrets {
		var p []string
		if raw, ok := c.Secrets[i].Options["prefixes"]; ok {
			_ = json.Unmarshal([]byte(raw), &p)
		}
		c.Secrets[i].Prefixes = p
	}
}

// YAML renders the configuration as a YAML document.
func (c Config) YAML() []byte {
	if len(c.Extra) > 0 {
		b, err := yaml.Marshal(c.generic())
		if err != nil {
			panic(err)
		}
		return b
	}
	b, err := yaml.Marshal(c)
	if err != nil {
		panic(err)
	}
	return b
}

// JSON renders the configuration as a JSON document.
func (c Config) JSON() []byte {
	if len(c.Extra) > 0 {
		b, err := json.Marshal(c.generic())
		if err != nil {
			panic(err)
		}
		return b
	}
	b, err := json.Marshal(c)
	if err != nil {
		panic(err)
	}
	return b
}

// BcryptAuth returns an authenticator holding the precomputed hash of password.
func BcryptAuth(password string) *Authenticator {
	h, ok := Hashes[password]
	if !ok {
		panic("no precomputed hash for " + password)
	}
	return &Authenticator{Type: AuthnBcrypt, Options: map[string]string{"hash": h}}
}

// FileAccounter is the accounter the reference server registers.
func FileAccounter() *Accounter { return &Accounter{Name: "file", Type: AcctFile} }

// Clone deep-copies a configuration (through its JSON form).
func (c Config) Clone() Config {
	var out Config
	b, _ := json.Marshal(c)
	_ = json.Unmarshal(b, &out)
	out.Restore()
	return out
}
