package cfggen

import (
	"encoding/json"
	"net"
	"strconv"
	"strings"
)

// Independent admission model (C13): deny beats allow, first matching scope in configuration order
// wins, users stay scoped.  Prefix containment is done with the harness' own bit arithmetic.

// Pfx is a parsed prefix.
type Pfx struct {
	Addr []byte // 4 or 16 bytes, host bits cleared
	Bits int
	// Mapped is set for an IPv6-notation prefix that lies inside ::ffff:0:0/96
	Mapped bool
}

var v4InV6 = []byte{0, 0, 0, 0, 0, 0, 0, 0, 0, 0, 0xff, 0xff}

// ParsePrefix parses CIDR text.  Address text is parsed by net.ParseIP (trusted primitive); family,
// masking and containment are the harness' own.
func ParsePrefix(s string) (Pfx, bool) {
	i := strings.IndexByte(s, '/')
	if i < 0 {
		return Pfx{}, false
	}
	ip := net.ParseIP(s[:i])
	bits, err := strconv.Atoi(s[i+1:])
	if ip == nil || err != nil || bits < 0 || s[i+1:] != strconv.Itoa(bits) {
		return Pfx{}, false
	}
	var p Pfx
	if !strings.Contains(s[:i], ":") {
		if bits > 32 {
			return Pfx{}, false
		}
		p.Addr = append([]byte{}, ip.To4()...)
	} else {
		if bits > 128 {
			return Pfx{}, false
		}
		p.Addr = append([]byte{}, ip.To16()...)
	}
	p.Bits = bits
	maskBytes(p.Addr, bits)
	if len(p.Addr) == 16 && bits >= 96 && hasPrefix(p.Addr, v4InV6) {
		p.Mapped = true
	}
	return p, true
}

func hasPrefix(b, pre []byte) bool {
	if len(b) < len(pre) {
		return false
	}
	for i := range pre {
		if b[i] != pre[i] {
			return false
		}
	}
	return true
}

func maskBytes(b []byte, bits int) {
	for i := range b {
		switch {
		case bits >= 8*(i+1):
		case bits <= 8*i:
			b[i] = 0
		default:
			b[i] &= byte(0xff << uint(8-(bits-8*i)))
		}
	}
}

func containsRaw(pfx []byte, bits int, addr []byte) bool {
	if len(pfx) != len(addr) {
		return false
	}
	cp := append([]byte{}, addr...)
	maskBytes(cp, bits)
	for i := range cp {
		if cp[i] != pfx[i] {
			return false
		}
	}
	return true
}

// Addr is a remote address as the server sees it: 4 or 16 bytes.
type Addr []byte

func (a Addr) IP() net.IP { return net.IP(append([]byte{}, a...)) }

func (a Addr) isMapped() bool { return len(a) == 16 && hasPrefix(a, v4InV6) }

// v4 form (for 4-byte and mapped addresses)
func (a Addr) v4() []byte {
	if len(a) == 4 {
		return a
	}
	if a.isMapped() {
		return a[12:]
	}
	return nil
}

// v6 form (16 bytes; a 4-byte address in its mapped form)
func (a Addr) v6() []byte {
	if len(a) == 16 {
		return a
	}
	return append(append([]byte{}, v4InV6...), a...)
}

// Contains under the two readings of IPv4-mapped addresses.
//
//	reading A (what Go's net package does): a mapped address *is* its IPv4 address; a mapped prefix of
//	>= 96 bits *is* the IPv4 prefix of bits-96; families never mix.
//	reading B (inclusive): additionally every IPv4 address is also matched, through its mapped form, by
//	IPv6 prefixes that cover it (::/0, ::ffff:0:0/96, ...).
func (p Pfx) Contains(a Addr) (readingA, readingB bool) {
	pv4, pbits := []byte(nil), 0
	switch {
	case len(p.Addr) == 4:
		pv4, pbits = p.Addr, p.Bits
	case p.Mapped:
		pv4, pbits = p.Addr[12:], p.Bits-96
	}
	if av4 := a.v4(); av4 != nil {
		if pv4 != nil {
			in := containsRaw(pv4, pbits, av4)
			return in, in
		}
		// IPv4 address against a genuine IPv6 prefix
		return false, containsRaw(p.Addr, p.Bits, a.v6())
	}
	// genuine IPv6 address
	if pv4 != nil {
		return false, false
	}
	in := containsRaw(p.Addr, p.Bits, a)
	return in, in
}

func anyContains(prefixes []string, a Addr) (ra, rb bool) {
	for _, s := range prefixes {
		if p, ok := ParsePrefix(s); ok {
			x, y := p.Contains(a)
			ra, rb = ra || x, rb || y
		}
	}
	return
}

func validCount(prefixes []string) int {
	n := 0
	for _, s := range prefixes {
		if _, ok := ParsePrefix(s); ok {
			n++
		}
	}
	return n
}

// EffectiveUser is a user as one scope sees it.
type EffectiveUser struct {
	User
	Authn *Authenticator // own, else that of the first group that has one
	Acct  *Accounter
}

// ScopeUsers returns the users that exist in scope name: those assigned to it, later entries of the same
// name replacing earlier ones; entries the bcrypt factory refuses (no hash and nothing to use as a
// keychain key, i.e. an empty user name) are not added.
func (c Config) ScopeUsers(name string) map[string]EffectiveUser {
	out := map[string]EffectiveUser{}
	for _, u := range c.Users {
		assigned := false
		for _, s := range u.Scopes {
			if s == name {
				assigned = true
			}
		}
		if !assigned {
			continue
		}
		eu := EffectiveUser{User: u, Authn: u.Authenticator, Acct: u.Accounter}
		for _, g := range u.Groups {
			if eu.Authn == nil && g.Authenticator != nil {
				eu.Authn = g.Authenticator
			}
			if eu.Acct == nil && g.Accounter != nil {
				eu.Acct = g.Accounter
			}
		}
		if eu.Authn != nil && eu.Authn.Type == AuthnBcrypt && eu.Authn.Options["hash"] == "" && eu.Authn.Options["key"] == "" && u.Name == "" {
			continue
		}
		out[u.Name] = eu
	}
	return out
}

// scopeServes says whether the secret configuration can serve at all under the reference server's
// registrations (START handler, PREFIX provider, a non-empty JSON prefix list, at least one user).
func (c Config) scopeServes(s Secret) bool {
	if s.Handler.Type != HandlerStart || s.Type != ProviderPrefix {
		return false
	}
	var p []string
	if err := json.Unmarshal([]byte(s.Options["prefixes"]), &p); err != nil || len(p) == 0 {
		return false
	}
	return len(c.ScopeUsers(s.Name)) > 0
}

// Admission is the model's verdict for one address.
type Admission struct {
	Scope int  // index into Secrets, -1 = refused
	Grey  bool // the two readings of mapped addresses disagree: no verdict
	Why   string
}

func (c Config) admit(a Addr, reading int) (int, string) {
	pick := func(x, y bool) bool {
		if reading == 0 {
			return x
		}
		return y
	}
	if validCount(c.PrefixDeny) > 0 {
		if pick(anyContains(c.PrefixDeny, a)) {
			return -1, "deny"
		}
	}
	if validCount(c.PrefixAllow) > 0 {
		if !pick(anyContains(c.PrefixAllow, a)) {
			return -1, "not-allowed"
		}
	}
	for i, s := range c.Secrets {
		if !c.scopeServes(s) {
			continue
		}
		if pick(anyContains(s.Prefixes, a)) {
			return i, "scope"
		}
	}
	return -1, "no-provider"
}

// Admit evaluates the admission rules for a remote address.
func (c Config) Admit(a Addr) Admission {
	sa, wa := c.admit(a, 0)
	sb, _ := c.admit(a, 1)
	if sa != sb {
		return Admission{Scope: sa, Grey: true, Why: "mapped-address readings disagree"}
	}
	return Admission{Scope: sa, Why: wa}
}

// MatchingScopes counts the serving scopes whose prefixes contain a (reading A), for classification.
func (c Config) MatchingScopes(a Addr) int {
	n := 0
	for _, s := range c.Secrets {
		if in, _ := anyContains(s.Prefixes, a); in && c.scopeServes(s) {
			n++
		}
	}
	return n
}

// InDeny / InAllow for classification.
func (c Config) InDeny(a Addr) bool  { in, _ := anyContains(c.PrefixDeny, a); return in }
func (c Config) InAllow(a Addr) bool { in, _ := anyContains(c.PrefixAllow, a); return in }

// Edges returns the first and last address of the prefix and their outside neighbours.
func (p Pfx) Edges() []Addr {
	first := append([]byte{}, p.Addr...)
	last := append([]byte{}, p.Addr...)
	for i := range last {
		switch {
		case p.Bits >= 8*(i+1):
		case p.Bits <= 8*i:
			last[i] = 0xff
		default:
			last[i] |= byte(0xff >> uint(p.Bits-8*i))
		}
	}
	before := append([]byte{}, first...)
	for i := len(before) - 1; i >= 0; i-- {
		before[i]--
		if before[i] != 0xff {
			break
		}
	}
	after := append([]byte{}, last...)
	for i := len(after) - 1; i >= 0; i-- {
		after[i]++
		if after[i] != 0 {
			break
		}
	}
	return []Addr{first, last, before, after}
}
