package cfggen

import (
	"encoding/hex"

	"golang.org/x/crypto/bcrypt"
)

// Credential evaluation for C10: would this scope's user verify with this password?
// bcrypt itself is a trusted primitive; which credential applies to whom is the harness' own reading
// of the documented rules (own authenticator, else that of the first group that has one; only the
// bcrypt type is registered by the reference server; "hash" option wins over the keychain).

// Verifies reports whether password verifies against the stored credential of user u.
// keychain maps a user name to the bcrypt hash the keychain would return.
func (u EffectiveUser) Verifies(password string, keychain map[string][]byte) bool {
	a := u.Authn
	if a == nil || a.Type != AuthnBcrypt {
		return false
	}
	var hash []byte
	if h := a.Options["hash"]; h != "" {
		b, err := hex.DecodeString(h)
		if err != nil {
			return false
		}
		hash = b
	} else {
		b, ok := keychain[u.Name]
		if !ok {
			return false
		}
		hash = b
	}
	return bcrypt.CompareHashAndPassword(hash, []byte(password)) == nil
}

// HasUsableAuthenticator says whether any password at all could verify.
func (u EffectiveUser) HasUsableAuthenticator(keychain map[string][]byte) bool {
	a := u.Authn
	if a == nil || a.Type != AuthnBcrypt {
		return false
	}
	if h := a.Options["hash"]; h != "" {
		_, err := hex.DecodeString(h)
		return err == nil
	}
	_, ok := keychain[u.Name]
	return ok
}
