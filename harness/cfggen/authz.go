package cfggen

import (
	"regexp"
	"strings"
	"unicode"
)

// Independent evaluator of the documented authorization semantics (C11), written from the statement:
// first applying rule decides (user rules before group rules, in order), whole-string pattern match,
// default deny; sessions return the configured values of the services selected by name whose match
// conditions hold.

const (
	AuthorPassAdd  = 0x01
	AuthorPassRepl = 0x02
	AuthorFail     = 0x10
	AuthorError    = 0x11
)

// ASV splits an argument into attribute, separator, value (after trimming surrounding white space).
func ASV(arg string) (a, s, v string) {
	arg = strings.TrimFunc(arg, unicode.IsSpace)
	i := strings.IndexAny(arg, "=*")
	if i < 0 {
		return "", "", ""
	}
	return arg[:i], arg[i : i+1], arg[i+1:]
}

// AuthzRequest is an authorization request as the evaluator sees it.
type AuthzRequest struct {
	User string
	Args []string
}

// Verdict lists what the statement allows as an answer.
type Verdict struct {
	Mode     string // command | session | ambiguous
	Statuses []byte // acceptable statuses
	// Args is the expected argument list for a PASS status (session mode); nil means "no arguments"
	Args []string
	// AltOK lists additional complete (status,args) answers that are acceptable (ambiguous requests)
	Alt []Verdict
	Why string
}

func (v Verdict) Accepts(status byte, args []string) bool {
	for _, s := range v.Statuses {
		if s == status {
			if status == AuthorFail || status == AuthorError {
				return true
			}
			if sameStrings(v.Args, args) {
				return true
			}
		}
	}
	for _, a := range v.Alt {
		if a.Accepts(status, args) {
			return true
		}
	}
	return false
}

func sameStrings(a, b []string) bool {
	if len(a) != len(b) {
		return false
	}
	for i := range a {
		if a[i] != b[i] {
			return false
		}
	}
	return true
}

// rules returns the user's command rules followed by those of its groups, in order.
func (u User) rules() []Command {
	out := append([]Command{}, u.Commands...)
	for _, g := range u.Groups {
		out = append(out, g.Commands...)
	}
	return out
}

func (u User) services() []Service {
	out := append([]Service{}, u.Services...)
	for _, g := range u.Groups {
		out = append(out, g.Services...)
	}
	return out
}

func isLineEnd(v string) bool { return strings.EqualFold(v, "<cr>") }

// ArgString joins the cmd-arg values with single spaces; a line-ending marker that is the last
// argument of the request is dropped.
func ArgString(args []string) string {
	var vals []string
	for i, arg := range args {
		a, _, v := ASV(arg)
		if a != "cmd-arg" {
			continue
		}
		if i == len(args)-1 && isLineEnd(v) {
			continue
		}
		vals = append(vals, v)
	}
	return strings.Join(vals, " ")
}

// evalCommand evaluates the rule list for a command.  invalidMatches says how an invalid pattern is
// treated when reached (false: does not match and evaluation goes on).  reachedInvalid reports whether
// an invalid pattern was reached before the decision; emptyGrey whether an empty pattern met an empty
// argument string before the decision (the statement's "matches the entire string" would say yes,
// skipping an empty pattern is also reasonable).
func evalCommand(rules []Command, cmd, argstr string, emptyMatches bool) (permit bool, reachedInvalid, emptyGrey bool) {
	for _, r := range rules {
		name := strings.TrimFunc(r.Name, unicode.IsSpace)
		if name == "*" {
			return r.Action == ActionPermit, reachedInvalid, emptyGrey
		}
		if name != cmd {
			continue
		}
		if len(r.Match) == 0 {
			return r.Action == ActionPermit, reachedInvalid, emptyGrey
		}
		for _, p := range r.Match {
			p = strings.TrimFunc(p, unicode.IsSpace)
			if p == "" {
				if argstr == "" {
					emptyGrey = true
					if emptyMatches {
						return r.Action == ActionPermit, reachedInvalid, emptyGrey
					}
				}
				continue
			}
			re, err := regexp.Compile(`\A(?:` + p + `)\z`)
			if err != nil {
				reachedInvalid = true
				continue
			}
			if re.MatchString(argstr) {
				return r.Action == ActionPermit, reachedInvalid, emptyGrey
			}
		}
	}
	return false, reachedInvalid, emptyGrey
}

// commandVerdict: FAIL unless the first applying rule permits.  An invalid pattern reached before the
// decision may either end the evaluation with FAIL or be skipped.
func commandVerdict(u User, cmd string, args []string) Verdict {
	argstr := ArgString(args)
	v := Verdict{Mode: "command"}
	pa, inv, eg := evalCommand(u.rules(), cmd, argstr, false)
	outcomes := map[bool]bool{pa: true}
	if eg {
		pb, inv2, _ := evalCommand(u.rules(), cmd, argstr, true)
		outcomes[pb] = true
		inv = inv || inv2
	}
	if inv {
		outcomes[false] = true
		v.Why = "invalid pattern reached"
	}
	if outcomes[true] {
		v.Statuses = append(v.Statuses, AuthorPassAdd)
	}
	if outcomes[false] {
		v.Statuses = append(v.Statuses, AuthorFail)
	}
	return v
}

func valueString(v Value) string {
	sep := "="
	if v.Optional {
		sep = "*"
	}
	return v.Name + sep + strings.Join(v.Values, " ")
}

// sessionVerdict: the configured values of every service whose name equals the attribute or the value
// of some argument (the request's, plus scope=<scope>) and whose match conditions hold; in
// configuration order, without duplicates.
func sessionVerdict(u User, scope string, args []string) Verdict {
	v := Verdict{Mode: "session"}
	all := append(append([]string{}, args...), "scope="+scope)
	// duplicates of the same (trimmed) argument count once
	seen := map[string]bool{}
	var uniq []string
	for _, a := range all {
		t := strings.TrimFunc(a, unicode.IsSpace)
		if !seen[t] {
			seen[t] = true
			uniq = append(uniq, t)
		}
	}
	kv := map[string]string{}
	for _, a := range uniq {
		at, _, val := ASV(a)
		kv[at] = val
	}
	var out []string
	outSeen := map[string]bool{}
	optional := false     // a contributing value is optional, or a contributing service was selected with '*'
	greyOptional := false // a '*' argument selected a service that contributed nothing
	for _, s := range u.services() {
		name := strings.TrimFunc(s.Name, unicode.IsSpace)
		selected, star := false, false
		for _, a := range uniq {
			at, sep, val := ASV(a)
			if at != name && val != name {
				continue
			}
			selected = true
			if at != "cmd" && sep == "*" {
				star = true
			}
		}
		if !selected {
			continue
		}
		holds := true
		for _, m := range s.Match {
			got, ok := kv[m.Name]
			if !ok {
				holds = false
				break
			}
			for _, want := range m.Values {
				if got != want {
					holds = false
				}
			}
		}
		if !holds || len(s.SetValues) == 0 {
			if star {
				greyOptional = true
			}
			continue
		}
		if star {
			optional = true
		}
		for _, sv := range s.SetValues {
			if sv.Optional {
				optional = true
			}
			str := strings.TrimFunc(valueString(sv), unicode.IsSpace)
			if !outSeen[str] {
				outSeen[str] = true
				out = append(out, str)
			}
		}
	}
	if len(out) == 0 {
		v.Statuses = []byte{AuthorFail}
		return v
	}
	v.Args = out
	switch {
	case optional:
		v.Statuses = []byte{AuthorPassRepl}
	case greyOptional:
		v.Statuses = []byte{AuthorPassAdd, AuthorPassRepl}
	default:
		v.Statuses = []byte{AuthorPassAdd}
	}
	return v
}

// Authorize evaluates a request of a user of the given scope.
func (c Config) Authorize(scope string, req AuthzRequest) Verdict {
	eu, ok := c.ScopeUsers(scope)[req.User]
	if !ok {
		return Verdict{Mode: "unknown-user", Statuses: []byte{AuthorFail}}
	}
	u := eu.User
	var services, cmds []string
	var cmdSeps []string
	for _, a := range req.Args {
		at, sep, val := ASV(a)
		switch at {
		case "service":
			services = append(services, val)
		case "cmd":
			cmds = append(cmds, val)
			cmdSeps = append(cmdSeps, sep)
		}
	}
	sess := sessionVerdict(u, scope, req.Args)
	isCmd := func(i int) bool { return cmdSeps[i] == "=" && cmds[i] != "" }
	// the unambiguous core: exactly one service argument and at most one cmd argument
	if len(services) == 1 && len(cmds) <= 1 {
		if services[0] == "shell" && len(cmds) == 1 && isCmd(0) {
			return commandVerdict(u, cmds[0], req.Args)
		}
		return sess
	}
	if len(services) == 0 && len(cmds) <= 1 {
		// no service named: not a shell command request
		return sess
	}
	// several service/cmd arguments: any reading that picks one of them is acceptable, and so is FAIL
	v := Verdict{Mode: "ambiguous", Statuses: []byte{AuthorFail}, Alt: []Verdict{sess}}
	shell := false
	for _, s := range services {
		if s == "shell" {
			shell = true
		}
	}
	if shell {
		for i := range cmds {
			if isCmd(i) {
				v.Alt = append(v.Alt, commandVerdict(u, cmds[i], req.Args))
			}
		}
	}
	return v
}
