package harness

import (
	"bytes"
	"context"
	"fmt"
	"net"
	"sync"
	"testing"

	tq "github.com/facebookincubator/tacquito"
	"verif/harness/ev"
	"verif/harness/model"
	"verif/harness/transport"

	"pgregory.net/rapid"
)

// C03 — body obfuscation is the RFC 8907 MD5 pad, reversible, and honours the clear flag; checked on
// raw bytes in all four directions against the model's own pad.

type c03Case struct {
	Dir        string  `json:"dir"`         // server-read | server-write | client-write | client-read
	Secret     model.B `json:"secret"`      // secret of the side under test
	PeerSecret model.B `json:"peer_secret"` // secret the harness side uses (differs only in the clear-flag class)
	Minor      byte    `json:"minor"`
	Seq        byte    `json:"seq"`
	Flags      byte    `json:"flags"`
	Session    uint32  `json:"session"`
	N          int     `json:"n"`    // body length
	Tile       model.B `json:"tile"` // body content pattern
	// client-write only: how the caller builds and sends the packet.  Build "options" = NewPacket with
	// header then body (length filled in); "literal" = a Packet literal whose Header.Length is whatever
	// StaleLen says (the client must go by the body, not by a stale length).  Via "send" | "send-only".
	Build    string `json:"build,omitempty"`
	StaleLen int    `json:"stale_len,omitempty"`
	Via      string `json:"via,omitempty"`
	// Warm: an earlier complete exchange on the same connection, with the other minor version and sequence
	// number 1, on the same session id ("same-session") or another one ("other-session"): whatever the
	// side under test keeps from it must not leak into the pad of the packet that is judged
	Warm string `json:"warm,omitempty"`
	// Neighbour (server directions): the secret provider hands out keys that are slices of one buffer
	// (as a keychain that reads all keys into one allocation does): this key for the connection that is
	// judged and, directly in front of it in the buffer, the Neighbour key for another connection, on
	// which a complete exchange takes place first.  The library may read the keys it is given; what it
	// does with the memory behind them must not change the pad of anybody else
	Neighbour model.B `json:"neighbour,omitempty"`
}

// warm returns header and cleartext of the warm-up request (an empty CONTINUE-shaped body).
func (c c03Case) warm() (model.Header, []byte) {
	sess := c.Session
	if c.Warm == "other-session" {
		sess ^= 1
	}
	return model.Header{Version: 0xc0 | (1 - c.Minor), Type: model.TypeAuthen, Seq: 1, Flags: c.Flags & model.FlagUnencrypted, Session: sess, Length: 5}, []byte{0, 0, 0, 0, 0}
}

// body builds a cleartext of exactly n bytes that is length-consistent under the authentication
// CONTINUE layout (so that the receiver's wrong-key heuristic has no reason to fire): for n >= 5 the
// first five octets announce n-5 bytes of user_msg; the rest is the tile.
func (c c03Case) body() []byte {
	out := make([]byte, c.N)
	tile := c.Tile
	if len(tile) == 0 {
		tile = model.B{0}
	}
	for i := range out {
		out[i] = tile[i%len(tile)] ^ byte(i>>8)
	}
	if c.N >= 5 {
		copy(out, []byte{byte((c.N - 5) >> 8), byte(c.N - 5), 0, 0, 0})
	}
	return out
}

func (c c03Case) header() model.Header {
	return model.Header{Version: 0xc0 | c.Minor, Type: model.TypeAuthen, Seq: c.Seq, Flags: c.Flags, Session: c.Session, Length: uint32(c.N)}
}

// rawED is an EncoderDecoder that encodes to exactly the bytes it holds.
type rawED struct{ b []byte }

func (r rawED) MarshalBinary() ([]byte, error) { return append([]byte{}, r.b...), nil }
func (r rawED) UnmarshalBinary(d []byte) error { return nil }
func (r rawED) Fields() map[string]string      { return nil }

// recHandler records what it is given and optionally replies.
type recHandler struct {
	mu    sync.Mutex
	reqs  []tq.Request
	reply func(resp tq.Response, req tq.Request)
}

func (h *recHandler) Handle(resp tq.Response, req tq.Request) {
	h.mu.Lock()
	cp := req
	cp.Body = append([]byte{}, req.Body...)
	h.reqs = append(h.reqs, cp)
	h.mu.Unlock()
	if h.reply != nil {
		h.reply(resp, req)
	}
}

func (h *recHandler) requests() []tq.Request {
	h.mu.Lock()
	defer h.mu.Unlock()
	return append([]tq.Request{}, h.reqs...)
}

func genSecret(t *rapid.T, label string) model.B {
	n := rapid.OneOf(rapid.SampledFrom([]int{0, 1, 5, 16, 63, 64, 65, 300}), rapid.IntRange(0, 40)).Draw(t, label+"_len")
	return genBytes(t, label, n, alphaAny)
}

func genC03(t *rapid.T) c03Case {
	c := c03Case{
		Dir:     rapid.SampledFrom([]string{"server-read", "server-write", "client-write", "client-read"}).Draw(t, "dir"),
		Secret:  genSecret(t, "secret"),
		Minor:   rapid.SampledFrom([]byte{0, 1}).Draw(t, "minor"),
		Flags:   rapid.OneOf(rapid.SampledFrom([]byte{0, 0, 0, 1, 4, 5}), rapid.Byte()).Draw(t, "flags"),
		Session: genSession(t),
		Tile:    rapid.SliceOfN(rapid.Byte(), 1, 7).Draw(t, "tile"),
	}
	c.N = rapid.OneOf(
		rapid.IntRange(0, 70),
		rapid.SampledFrom([]int{0, 1, 4, 5, 6, 15, 16, 17, 31, 32, 33, 47, 48, 49, 255, 256, 4095, 4096, 4097, 65519, 65520, 65521, 65535, 65536}),
		rapid.IntRange(0, 65536),
	).Draw(t, "n")
	// sequence number as seen by the packet that is obfuscated by the side under test
	switch c.Dir {
	case "server-read", "client-write":
		c.Seq = byte(rapid.OneOf(rapid.SampledFrom([]int{1, 3, 253, 255}), rapid.Map(rapid.IntRange(0, 127), func(i int) int { return 2*i + 1 })).Draw(t, "seq"))
	case "server-write":
		// the request's number; the reply carries seq+1
		c.Seq = byte(rapid.OneOf(rapid.SampledFrom([]int{1, 3, 251, 253}), rapid.Map(rapid.IntRange(0, 126), func(i int) int { return 2*i + 1 })).Draw(t, "seq"))
	case "client-read":
		c.Seq = byte(rapid.OneOf(rapid.SampledFrom([]int{2, 4, 254}), rapid.Map(rapid.IntRange(1, 127), func(i int) int { return 2 * i })).Draw(t, "seq"))
	}
	if c.Dir == "client-write" {
		c.Build = rapid.SampledFrom([]string{"options", "literal", "literal"}).Draw(t, "build")
		c.StaleLen = rapid.SampledFrom([]int{0, 0, 5, c.N + 20, 65536}).Draw(t, "stale_len")
		c.Via = rapid.SampledFrom([]string{"send", "send-only"}).Draw(t, "via")
	}
	c.Warm = rapid.SampledFrom([]string{"", "", "same-session", "same-session", "other-session"}).Draw(t, "warm_up")
	if (c.Dir == "server-read" || c.Dir == "server-write") && len(c.Secret) > 0 && rapid.IntRange(0, 3).Draw(t, "keys_in_one_buffer") == 0 {
		c.Neighbour = genSecret(t, "neighbour_key")
	}
	c.PeerSecret = c.Secret
	if c.Flags&model.FlagUnencrypted != 0 && rapid.Bool().Draw(t, "different_peer_secret") {
		c.PeerSecret = genSecret(t, "peer_secret")
	}
	return c
}

func c03NonTrivial(c c03Case) bool {
	return (c.N > 16 && c.N%16 != 0) || c.N >= 4096 || (c.Flags&model.FlagUnencrypted != 0 && !bytes.Equal(c.Secret, c.PeerSecret))
}

// carvedSP serves the connection from 192.0.2.77 with one key and everybody else with another; both are
// slices of one buffer, the first directly in front of the second.
type carvedSP struct {
	first, second  []byte
	handler, other tq.Handler
}

func (s carvedSP) Get(ctx context.Context, remote net.Addr) ([]byte, tq.Handler, error) {
	if a, ok := remote.(*net.TCPAddr); ok && a.Port == 40077 {
		return s.first, s.other, nil
	}
	return s.second, s.handler, nil
}

func nonNil(b []byte) []byte {
	if b == nil {
		return []byte{}
	}
	return b
}

func runC03(t failer, c c03Case) {
	ev.Eval()
	journal("C03", c)
	clear := c.body()
	h := c.header()
	fail := func(sig, format string, args ...interface{}) {
		violation(t, "C03", c.Dir, "C03:"+c.Dir+":"+sig, c, format, args...)
	}
	switch c.Dir {
	case "server-read", "server-write":
		rh := &recHandler{}
		var replyClear []byte
		if c.Dir == "server-write" {
			replyClear = clear
			rh.reply = func(resp tq.Response, req tq.Request) { _, _ = resp.Reply(rawED{replyClear}) }
		}
		var sp tq.SecretProvider = staticSP{secret: nonNil(c.Secret), handler: rh}
		if len(c.Neighbour) > 0 {
			ev.Class("keys-carved-from-one-buffer")
			buf := append(append(append([]byte{}, c.Neighbour...), c.Secret...), 0xa5, 0xa5, 0xa5, 0xa5)
			sp = carvedSP{first: buf[:len(c.Neighbour)], second: buf[len(c.Neighbour) : len(c.Neighbour)+len(c.Secret)], handler: rh, other: tq.HandlerFunc(func(resp tq.Response, req tq.Request) {
				_, _ = resp.Reply(rawED{[]byte{0, 0, 0, 0, 0, 0}})
			})}
		}
		srv := startServer(nopLogger{}, sp)
		if len(c.Neighbour) > 0 {
			// the neighbour's connection: one complete exchange under its own key
			nc, err := srv.connect(&net.TCPAddr{IP: net.IPv4(192, 0, 2, 77), Port: 40077})
			if err != nil {
				t.Fatalf("%v", err)
			}
			nd := &connDriver{c: nc}
			npk, _, _, err := nd.send(model.Frame(c.Neighbour, model.Header{Version: 0xc1, Type: model.TypeAuthen, Seq: 1, Session: c.Session ^ 0x55}, []byte{0, 0, 0, 0, 0}))
			if err != nil {
				t.Fatalf("%v", err)
			}
			if len(npk) != 1 {
				fail("neighbour-not-served", "the exchange on the neighbour connection (a well-formed packet under its own key) got %d replies", len(npk))
			}
		}
		conn, err := srv.connect(nil)
		if err != nil {
			t.Fatalf("%v", err)
		}
		d := &connDriver{c: conn}
		var reqClear []byte
		if c.Dir == "server-read" {
			reqClear = clear
		} else {
			reqClear = []byte{0, 0, 0, 0, 0} // an empty CONTINUE as the request
		}
		nwarm := 0
		if c.Warm != "" {
			ev.Class("warm-up:" + c.Warm)
			wh, wclear := c.warm()
			if _, _, wclosed, err := d.send(model.Frame(c.PeerSecret, wh, wclear)); err != nil || wclosed {
				fail("warm-up-refused", "the warm-up exchange (a well-formed packet, seq 1, other minor version) was refused: closed=%v err=%v", wclosed, err)
			}
			nwarm = 1
		}
		wire := model.Frame(c.PeerSecret, h, reqClear)
		pkts, rest, closed, err := d.send(wire)
		if err != nil {
			t.Fatalf("%v", err)
		}
		if e := srv.stop(); e != nil {
			t.Fatalf("%v", e)
		}
		reqs := rh.requests()
		if len(reqs) != 1+nwarm {
			fail("request-not-delivered", "handler saw %d requests for %d well-formed packet(s) (closed=%v)", len(reqs), 1+nwarm, closed)
		}
		got := reqs[nwarm]
		if c.Dir == "server-read" {
			if !bytes.Equal(got.Body, clear) {
				fail("cleartext-differs", "handler received a body that is not the cleartext (len %d vs %d, first difference at %d)", len(got.Body), len(clear), firstDiff(got.Body, clear))
			}
			want := h
			if gh := modelHeader(&got.Header); gh != want {
				fail("header-altered", "handler received header %+v, sent %+v", gh, want)
			}
			return
		}
		// server-write: one packet with the model's header and body
		if len(pkts) != 1 || len(rest) != 0 {
			fail("reply-count", "expected exactly one reply packet, got %d (+%d stray bytes)", len(pkts), len(rest))
		}
		rp := pkts[0]
		wantH := h
		wantH.Seq = h.Seq + 1
		wantH.Length = uint32(len(clear))
		if rp.H != wantH {
			fail("header-altered", "reply header %+v, want %+v", rp.H, wantH)
		}
		wantBody := clear
		if h.Flags&model.FlagUnencrypted == 0 {
			wantBody = model.Obfuscate(c.Secret, wantH, clear)
		}
		if !bytes.Equal(rp.Body, wantBody) {
			fail("wire-body-differs", "reply body on the wire is not cleartext XOR pad (len %d, first difference at %d)", len(clear), firstDiff(rp.Body, wantBody))
		}
	case "client-write", "client-read":
		log := transport.NewLog()
		conn := transport.NewConn(transport.NextID(), log, defaultRemote)
		cl, err := tq.NewClient(tq.SetClientConn(conn, nonNil(c.Secret)))
		if err != nil {
			t.Fatalf("client: %v", err)
		}
		var reqH, repH model.Header
		var reqClear, repClear []byte
		if c.Dir == "client-write" {
			reqH, reqClear = h, clear
			repH = h
			repH.Seq = h.Seq + 1
			repClear = []byte{0, 0, 0, 0, 0}
		} else {
			repH, repClear = h, clear
			reqH = h
			reqH.Seq = h.Seq - 1
			reqClear = []byte{0, 0, 0, 0, 0}
		}
		if c.Warm != "" {
			ev.Class("warm-up:" + c.Warm)
			wh, wclear := c.warm()
			wrep := wh
			wrep.Seq = 2
			conn.Feed(model.Frame(c.PeerSecret, wrep, wclear))
		}
		if repH.Seq == 0 { // 255+1 does not exist: the peer simply closes
			conn.FeedEOF()
		} else {
			conn.Feed(model.Frame(c.PeerSecret, repH, repClear))
			conn.FeedEOF()
		}
		lh := libHeader(reqH)
		lh.Length = 0 // Send fills it in
		pkt := tq.NewPacket(tq.SetPacketHeader(lh), tq.SetPacketBody(append([]byte{}, reqClear...)))
		if c.Build == "literal" {
			lh.Length = uint32(c.StaleLen)
			pkt = &tq.Packet{Header: lh, Body: append([]byte{}, reqClear...)}
		}
		skip := 0
		if c.Warm != "" {
			wh, wclear := c.warm()
			if p := catch(func() {
				_, werr := cl.Send(tq.NewPacket(tq.SetPacketHeader(libHeader(wh)), tq.SetPacketBody(wclear)))
				if werr != nil {
					fail("warm-up-refused", "the warm-up exchange through Client.Send failed: %v", werr)
				}
			}); p != nil {
				fail("panic", "Client.Send panics: %v", p)
			}
			w, _ := conn.Written()
			skip = len(w)
		}
		var resp *tq.Packet
		var serr error
		if p := catch(func() {
			if c.Via == "send-only" {
				serr = cl.SendOnly(pkt)
			} else {
				resp, serr = cl.Send(pkt)
			}
		}); p != nil {
			fail("panic", "Client.Send panics: %v", p)
		}
		out, _ := conn.Written()
		out = out[skip:]
		if c.Dir == "client-write" {
			reqH.Length = uint32(len(reqClear))
			want := model.Frame(c.Secret, reqH, reqClear)
			if !bytes.Equal(out, want) {
				fail("wire-differs", "bytes written by Client.Send differ from header+cleartext XOR pad (len %d vs %d, first difference at %d)", len(out), len(want), firstDiff(out, want))
			}
			return
		}
		if serr != nil {
			fail("reply-refused", "Client.Send returned error for a well-formed reply: %v", serr)
		}
		if !bytes.Equal(resp.Body, clear) {
			fail("cleartext-differs", "Client.Send returned a body that is not the cleartext (len %d vs %d, first difference at %d)", len(resp.Body), len(clear), firstDiff(resp.Body, clear))
		}
		wantH := repH
		wantH.Length = uint32(len(clear))
		if wantH.Seq == 2 {
			wantH.Flags |= model.FlagSingleConnect // documented decoder behaviour
		}
		if gh := modelHeader(resp.Header); gh != wantH {
			fail("header-altered", "Client.Send returned header %+v, want %+v", gh, wantH)
		}
	default:
		t.Fatalf("bad dir %q", c.Dir)
	}
}

func firstDiff(a, b []byte) int {
	n := len(a)
	if len(b) < n {
		n = len(b)
	}
	for i := 0; i < n; i++ {
		if a[i] != b[i] {
			return i
		}
	}
	if len(a) != len(b) {
		return n
	}
	return -1
}

func classifyC03(c c03Case) {
	ev.Class("dir:" + c.Dir)
	if c.Via == "send-only" {
		ev.Class("client:SendOnly")
	}
	if c.Build == "literal" {
		ev.Class("client:packet-literal-with-stale-length")
	}
	switch {
	case c.N == 0:
		ev.Class("len:0")
	case c.N%16 == 0:
		ev.Class("len:multiple-of-16")
	case c.N%16 == 1 || c.N%16 == 15:
		ev.Class("len:16k±1")
	default:
		ev.Class("len:other")
	}
	if c.N >= 65520 {
		ev.Class("len:>=65520")
	}
	if c.Flags&model.FlagUnencrypted != 0 {
		ev.Class("clear-flag")
		if !bytes.Equal(c.Secret, c.PeerSecret) {
			ev.Class("clear-flag+different-secrets")
		}
	}
	if c03NonTrivial(c) {
		ev.NonTrivial(c.Dir, c)
	}
}

func TestC03(t *testing.T) {
	rapid.Check(t, func(rt *rapid.T) {
		c := genC03(rt)
		runC03(rt, c)
		classifyC03(c)
	})
}

// TestC03Enum: every body length 0..80 and the block/limit boundaries, every sequence number, in all
// four directions, with a fixed secret.
func TestC03Enum(t *testing.T) {
	lens := []int{255, 256, 257, 4095, 4096, 4097, 65519, 65520, 65521, 65535, 65536}
	for n := 0; n <= 80; n++ {
		lens = append(lens, n)
	}
	for _, dir := range []string{"server-read", "server-write", "client-write", "client-read"} {
		for _, n := range lens {
			seq := byte(1)
			if dir == "client-read" {
				seq = 2
			}
			c := c03Case{Dir: dir, Secret: b("fooman"), PeerSecret: b("fooman"), Minor: byte(n % 2), Seq: seq, Session: 0xdeadbeef, N: n, Tile: model.B{0x5a, 0xa5, 0x01}}
			runC03(t, c)
			classifyC03(c)
		}
		for s := 1; s <= 255; s++ {
			if (dir == "client-read") != (s%2 == 0) {
				continue
			}
			if dir == "server-write" && s == 255 {
				continue
			}
			c := c03Case{Dir: dir, Secret: b("k"), PeerSecret: b("k"), Seq: byte(s), Session: uint32(s) << 24, N: 40, Tile: model.B{7}}
			runC03(t, c)
			classifyC03(c)
		}
	}
}

func TestC03Regress(t *testing.T) {
	for _, s := range loadSaved(t, "C03") {
		var probe struct {
			Overlap bool `json:"overlap"`
			A       int  `json:"size_a"`
			B       int  `json:"size_b"`
			Seg     bool `json:"a_segmented"`
			Held    bool `json:"a_held"`
		}
		mustUnmarshal(t, s, &probe)
		if probe.Overlap {
			runOverlap(t, "C03", probe.A, probe.B, probe.Seg, probe.Held)
			continue
		}
		var c c03Case
		mustUnmarshal(t, s, &c)
		runC03(t, c)
	}
}

var _ = fmt.Sprintf
