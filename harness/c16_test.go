package harness

import (
	"context"
	"encoding/json"
	"flag"
	"fmt"
	"net"
	"os"
	"path/filepath"
	"reflect"
	"strconv"
	"strings"
	"sync"
	"syscall"
	"testing"
	"time"

	"github.com/facebookincubator/tacquito/cmds/server/config"
	"github.com/facebookincubator/tacquito/cmds/server/loader/fsnotify"
	jsonl "github.com/facebookincubator/tacquito/cmds/server/loader/json"
	yamll "github.com/facebookincubator/tacquito/cmds/server/loader/yaml"
	"verif/harness/cfggen"
	"verif/harness/ev"
	"verif/harness/refsrv"

	"pgregory.net/rapid"
)

// C16 — reloading a configuration file is equivalent to starting with it; published configurations
// are never modified afterwards; a failed load leaves the last good one in force.

type c16Doc struct {
	Kind string        `json:"kind"` // valid | syntax-error | no-users | no-secrets
	Cfg  cfggen.Config `json:"cfg"`
}

type c16Case struct {
	Format string   `json:"format"`
	Docs   []c16Doc `json:"docs"`
	// Via: "unmarshal" feeds the documents to Unmarshal; "load" writes each to the same file and calls
	// Load(path), the way the file watcher reloads a configuration
	Via string `json:"via"`
	// Lazy: a successfully loaded configuration is collected from Config() only after the next document
	// has been fed, when that document is one a fresh loader refuses (the consumer was not scheduled yet)
	Lazy bool `json:"lazy,omitempty"`
	// SettleMs (live variant): real time between the last reload and the lookups (work a server does on
	// the side after a reload returned gets the chance to finish)
	SettleMs int `json:"settle_ms,omitempty"`
}

func (d c16Doc) render(format string) []byte {
	cfg := d.Cfg.Clone()
	switch d.Kind {
	case "no-users":
		cfg.Users = nil
	case "no-secrets":
		cfg.Secrets = nil
	}
	var b []byte
	if format == "json" {
		b = cfg.JSON()
	} else {
		b = cfg.YAML()
	}
	if d.Kind == "syntax-error" {
		if format == "json" {
			return append(b[:len(b)/2], []byte(`,,{"`)...)
		}
		return append([]byte("users: [\n  - name: {unbalanced\n"), b...)
	}
	return b
}

// mutateCfg derives the next document from the previous one.
func mutateCfg(t *rapid.T, prev cfggen.Config) (cfggen.Config, string) {
	c := prev.Clone()
	switch rapid.IntRange(0, 15).Draw(t, "mutation") {
	case 14, 15:
		// an edit that leaves the length of the document as it was: one letter of a name, one digit of a prefix
		for i := range c.Users {
			if n := c.Users[i].Name; n != "" && n[len(n)-1] >= 'a' && n[len(n)-1] < 'z' {
				c.Users[i].Name = n[:len(n)-1] + string(n[len(n)-1]+1)
				return c, "same-length-edit"
			}
		}
		if len(c.PrefixDeny) > 0 && strings.HasPrefix(c.PrefixDeny[0], "10.1.9.") {
			c.PrefixDeny[0] = "10.1.8." + strings.TrimPrefix(c.PrefixDeny[0], "10.1.9.")
			return c, "same-length-edit"
		}
	case 12:
		// a filter list that the loader cannot parse completely (a typo in one entry): whatever it makes
		// of it, it makes the same of it after a reload as on a fresh start
		bad := rapid.SampledFrom([]string{"not-a-prefix", "10.1.2.3", "10.1.0.0/33", ""}).Draw(t, "bad_cidr")
		if rapid.Bool().Draw(t, "bad_in_deny") {
			c.PrefixDeny = []string{bad}
		} else {
			c.PrefixAllow = []string{bad, "10.2.0.0/16"}
		}
		return c, "unparsable-filter-entry"
	case 0:
		c.PrefixDeny = nil
		return c, "drop-deny"
	case 1:
		c.PrefixAllow = nil
		return c, "drop-allow"
	case 2:
		if len(c.Users) > 1 {
			i := rapid.IntRange(0, len(c.Users)-1).Draw(t, "drop_user")
			c.Users = append(c.Users[:i], c.Users[i+1:]...)
			return c, "shrink-users"
		}
	case 3:
		if len(c.Secrets) > 1 {
			c.Secrets = c.Secrets[:len(c.Secrets)-1]
			return c, "shrink-secrets"
		}
	case 4:
		if len(c.Users) > 1 {
			c.Users[0], c.Users[len(c.Users)-1] = c.Users[len(c.Users)-1], c.Users[0]
			return c, "reorder-users"
		}
	case 5:
		i := rapid.IntRange(0, len(c.Users)-1).Draw(t, "strip_user")
		u := &c.Users[i]
		switch rapid.IntRange(0, 5).Draw(t, "strip_what") {
		case 0:
			u.Commands = nil
		case 1:
			u.Services = nil
		case 2:
			u.Groups = nil
		case 3:
			u.Authenticator = nil
		case 4:
			u.Accounter = nil
		default:
			if len(u.Commands) > 0 {
				u.Commands[0].Match = nil
			}
			if len(u.Services) > 0 {
				u.Services[0].SetValues = nil
				u.Services[0].Match = nil
			}
		}
		return c, "strip-user-part"
	case 6:
		if len(c.Secrets) > 1 {
			c.Secrets[0], c.Secrets[1] = c.Secrets[1], c.Secrets[0]
			return c, "reorder-secrets"
		}
	case 7:
		i := rapid.IntRange(0, len(c.Users)-1).Draw(t, "scope_user")
		c.Users[i].Scopes = c.Users[i].Scopes[:len(c.Users[i].Scopes)/2]
		return c, "shrink-scopes"
	case 8:
		c.PrefixDeny = []string{"10.9.0.0/16"}
		c.PrefixAllow = []string{"10.0.0.0/8", "2001:db8::/32"}
		return c, "add-filters"
	case 9:
		i := rapid.IntRange(0, len(c.Users)-1).Draw(t, "auth_user")
		if a := c.Users[i].Authenticator; a != nil && len(a.Options) > 0 {
			a.Options = map[string]string{"key": "k"}
			return c, "replace-options"
		}
	case 10:
		i := rapid.IntRange(0, len(c.Secrets)-1).Draw(t, "opt_secret")
		c.Secrets[i].Handler.Options = nil
		c.Secrets[i].Secret.Group = ""
		return c, "strip-secret-part"
	}
	// change a value
	c.Secrets[0].Secret.Key = c.Secrets[0].Secret.Key + "x"
	return c, "change-value"
}

func genC16(t *rapid.T) (c16Case, []string) {
	c := c16Case{Format: rapid.SampledFrom([]string{"yaml", "json"}).Draw(t, "format"), Via: rapid.SampledFrom([]string{"unmarshal", "load", "load", "load-same-mtime"}).Draw(t, "via"),
		Lazy: rapid.Bool().Draw(t, "lazy_collect")}
	w := cfggen.GenWorld(t)
	cur := w.Cfg
	if rapid.Bool().Draw(t, "start_with_filters") {
		cur.PrefixDeny = []string{"10.1.9.0/24", "192.0.2.0/24"}
		cur.PrefixAllow = []string{"10.0.0.0/8"}
	}
	for i := range cur.Secrets {
		cur.Secrets[i].Handler.Options = map[string]string{"h": "v"}
	}
	var labels []string
	n := rapid.IntRange(2, 6).Draw(t, "ndocs")
	for i := 0; i < n; i++ {
		kind := rapid.SampledFrom([]string{"valid", "valid", "valid", "valid", "syntax-error", "no-users", "no-secrets"}).Draw(t, "doc_kind")
		if i == 0 && rapid.Bool().Draw(t, "first_valid") {
			kind = "valid"
		}
		label := "first"
		if i > 0 && kind == "valid" {
			cur, label = mutateCfg(t, cur)
		}
		doc := cur.Clone()
		doc.Extra = nil
		if label == "same-length-edit" && len(c.Docs) > 0 && kind == "valid" {
			doc.Extra = c.Docs[len(c.Docs)-1].Cfg.Extra // nothing else changes
		} else {
			drawExtraKeys(t, &doc) // each document decides anew about keys beyond the known schema
		}
		c.Docs = append(c.Docs, c16Doc{Kind: kind, Cfg: doc})
		labels = append(labels, kind+":"+label)
	}
	return c, labels
}

type docLoader interface {
	Unmarshal(b []byte) error
	Load(path string) error
	Config() chan config.ServerConfig
}

// feed hands a document to the loader the way the case asks for.
func feed(l docLoader, via, dir string, doc []byte) error {
	if via != "load" && via != "load-same-mtime" {
		return l.Unmarshal(doc)
	}
	path := filepath.Join(dir, "tacquito.conf")
	before, statErr := os.Stat(path)
	if err := os.WriteFile(path, doc, 0o600); err != nil {
		return fmt.Errorf("HARNESS-BUG: %v", err)
	}
	if via == "load-same-mtime" && statErr == nil {
		// rewritten in place and given its previous modification time back (cp -p, rsync -t, two saves
		// within one tick of a coarse file system clock)
		_ = os.Chtimes(path, before.ModTime(), before.ModTime())
	}
	return l.Load(path)
}

func newDocLoader(format string) docLoader {
	if format == "json" {
		return jsonl.New()
	}
	return yamll.New()
}

// deepCopy snapshots a published configuration through reflection-free JSON of every exported field.
func snapshot(c config.ServerConfig) string {
	b, err := json.Marshal(c)
	if err != nil {
		return "marshal-error:" + err.Error()
	}
	return string(b)
}

func normJSON(s string) interface{} {
	var v interface{}
	_ = json.Unmarshal([]byte(s), &v)
	return dropEmpty(v)
}

func runC16(t failer, c c16Case) (lastGood int) {
	ev.Eval()
	fail := func(sig, format string, args ...interface{}) {
		violation(t, "C16", "reload", "C16:"+sig, c, format, args...)
	}
	for i := range c.Docs {
		c.Docs[i].Cfg.Restore()
	}
	l := newDocLoader(c.Format)
	dir, derr := os.MkdirTemp("", "verif-c16-")
	if derr != nil {
		t.Fatalf("HARNESS-BUG: %v", derr)
	}
	defer os.RemoveAll(dir)
	freshDir := filepath.Join(dir, "fresh")
	_ = os.Mkdir(freshDir, 0o700)
	type pub struct {
		idx  int
		val  config.ServerConfig
		snap string
	}
	var published []pub
	lastGood = -1
	// collect takes the configuration published for document i off the channel and compares it
	collect := func(i int, d c16Doc, want config.ServerConfig, after string) {
		var got config.ServerConfig
		select {
		case got = <-l.Config():
		default:
			if after != "" {
				fail("published-config-lost", "document %d loaded without error; before its configuration was collected %s, and now nothing is on the channel: the last good configuration never comes into force", i, after)
			}
			fail("nothing-published", "document %d loaded without error but nothing was published", i)
		}
		gs, ws := snapshot(got), snapshot(want)
		if !reflect.DeepEqual(normJSON(gs), normJSON(ws)) {
			fail("reload-differs-from-fresh", "document %d (%s): configuration published after reload differs from what a fresh loader publishes\n reload=%s\n fresh =%s", i, d.Kind, clipStr(gs), clipStr(ws))
		}
		published = append(published, pub{idx: i, val: got, snap: gs})
	}
	type pendingPub struct {
		idx  int
		doc  c16Doc
		want config.ServerConfig
	}
	var pending *pendingPub
	for i, d := range c.Docs {
		doc := d.render(c.Format)
		// what does a fresh loader say about this document?
		fresh := newDocLoader(c.Format)
		ferr := feed(fresh, c.Via, freshDir, doc)
		if pending != nil && ferr == nil {
			// a document that loads would block on the full channel: collect first
			collect(pending.idx, pending.doc, pending.want, "")
			pending = nil
		}
		var err error
		if pending == nil {
			err = feed(l, c.Via, dir, doc)
		} else {
			// fed while the previous configuration is still on the channel; should the loader accept the
			// document after all it blocks on the channel, so the collection below has to unblock it
			ev.Class("refused-document-fed-before-collection")
			done := make(chan error, 1)
			go func() { done <- feed(l, c.Via, dir, doc) }()
			select {
			case err = <-done:
				collect(pending.idx, pending.doc, pending.want, fmt.Sprintf("document %d (%s, refused) was fed", i, d.Kind))
			case <-time.After(5 * time.Second):
				collect(pending.idx, pending.doc, pending.want, "")
				err = <-done
			}
			pending = nil
		}
		if (err == nil) != (ferr == nil) {
			fail("acceptance-depends-on-history", "document %d (%s): loader with history returned %v, a fresh loader %v", i, d.Kind, err, ferr)
		}
		if err != nil {
			select {
			case v := <-l.Config():
				fail("failed-load-published", "document %d (%s) was refused (%v) but a configuration was published: %s", i, d.Kind, err, clipStr(snapshot(v)))
			default:
			}
		} else {
			want := <-fresh.Config()
			if c.Lazy && i+1 < len(c.Docs) {
				pending = &pendingPub{idx: i, doc: d, want: want}
			} else {
				collect(i, d, want, "")
			}
			lastGood = i
		}
		// everything published earlier must still be what it was
		for _, p := range published {
			if now := snapshot(p.val); now != p.snap {
				fail("published-config-modified", "the configuration published for document %d was modified by loading document %d (%s)\n then=%s\n now =%s", p.idx, i, d.Kind, clipStr(p.snap), clipStr(now))
			}
		}
	}
	return lastGood
}

// runC16Live feeds the documents to the unmarshaller of a live Loader and compares what connections see
// (admission, bound secret, PAP outcomes) with a server freshly started with the last good document.
func runC16Live(t failer, c c16Case, kc map[string][]byte) {
	fail := func(sig, format string, args ...interface{}) {
		violation(t, "C16", "reload-live", "C16:"+sig, c, format, args...)
	}
	first := -1
	for i, d := range c.Docs {
		if d.Kind == "valid" {
			first = i
			break
		}
	}
	if first < 0 {
		return
	}
	opts := refsrv.Options{Logger: refsrv.NopLogger{}, Keychain: refsrv.MapKeychain(kc), Format: c.Format}
	live, err := refsrv.New(c.Docs[first].render(c.Format), opts)
	if err != nil {
		return
	}
	defer live.Close()
	last := first
	for i := first + 1; i < len(c.Docs); i++ {
		if err := live.Reload(c.Docs[i].render(c.Format)); err == nil {
			last = i
		}
	}
	if c.SettleMs > 0 {
		time.Sleep(time.Duration(c.SettleMs) * time.Millisecond)
	}
	freshStack, err := refsrv.New(c.Docs[last].render(c.Format), opts)
	if err != nil {
		t.Fatalf("HARNESS-BUG: fresh stack refused a document the live one accepted: %v", err)
	}
	defer freshStack.Close()
	probes := []net.IP{net.IPv4(10, 1, 0, 5), net.IPv4(10, 2, 0, 5), net.IPv4(10, 1, 9, 1), net.IPv4(10, 9, 0, 1), net.IPv4(192, 0, 2, 5), net.IPv4(172, 16, 0, 1), net.ParseIP("2001:db8::1")}
	for _, ip := range probes {
		ra := &net.TCPAddr{IP: ip, Port: 1}
		s1, h1, e1 := live.Loader.Get(context.Background(), ra)
		s2, h2, e2 := freshStack.Loader.Get(context.Background(), ra)
		if (e1 == nil) != (e2 == nil) || string(s1) != string(s2) || (h1 == nil) != (h2 == nil) {
			fail("live-lookup-differs-from-fresh", "after the reloads, address %v: live loader -> (secret %q, err %v); freshly started with document %d -> (secret %q, err %v)", ip, s1, e1, last, s2, e2)
		}
	}
}

func classifyC16(c c16Case, labels []string) {
	nt := false
	seenValid := false
	for i, d := range c.Docs {
		l := "doc"
		if i < len(labels) {
			l = labels[i]
		}
		ev.Class(l)
		if d.Kind == "valid" {
			if seenValid {
				switch l {
				case "valid:drop-deny", "valid:drop-allow", "valid:shrink-users", "valid:shrink-secrets", "valid:strip-user-part", "valid:shrink-scopes", "valid:strip-secret-part", "valid:replace-options":
					nt = true
				}
			}
			seenValid = true
		} else if seenValid {
			ev.Class("invalid-after-valid")
		}
	}
	ev.Class("format:" + c.Format)
	ev.Class("via:" + c.Via)
	if nt {
		ev.NonTrivial("c16", c)
	}
}

func TestC16(t *testing.T) {
	// the live variant runs on every k-th case so that at most ~400 Loaders (one parked goroutine
	// each) are created per process whatever the case count is
	k := 1
	if f := flag.Lookup("rapid.checks"); f != nil {
		if n, err := strconv.Atoi(f.Value.String()); err == nil && n > 400 {
			k = (n + 399) / 400
		}
	}
	n := 0
	rapid.Check(t, func(rt *rapid.T) {
		c, labels := genC16(rt)
		runC16(rt, c)
		if n++; n%k == 0 {
			runC16Live(rt, c, nil)
			ev.Class("live-variant")
		}
		classifyC16(c, labels)
	})
}

func TestC16Regress(t *testing.T) {
	for _, s := range loadSaved(t, "C16") {
		var c c16Case
		mustUnmarshal(t, s, &c)
		runC16(t, c)
		runC16Live(t, c, nil)
	}
}

var _ = fmt.Sprintf

// TestC16EnumWatcher drives the real file watcher (cmds/server/loader/fsnotify) around a YAML loader:
// the file is rewritten with a smaller document, then with an invalid one, then with a third; what the
// watcher publishes after each good rewrite must equal what a fresh loader publishes for that file.
// Waiting for the watcher's one-second tick is bounded by the watchdog; no arrival is inconclusive.
func TestC16EnumWatcher(t *testing.T) {
	ev.Eval()
	dir, err := os.MkdirTemp("", "verif-c16w-")
	if err != nil {
		t.Fatalf("HARNESS-BUG: %v", err)
	}
	defer os.RemoveAll(dir)
	path := filepath.Join(dir, "tacquito.yaml")
	a := cfggen.Config{
		Secrets:     []cfggen.Secret{cfggen.NewSecret(cfggen.ScopeA, cfggen.KeyA, cfggen.PrefixA), cfggen.NewSecret(cfggen.ScopeB, cfggen.KeyB, cfggen.PrefixB)},
		Users:       []cfggen.User{{Name: "alice", Scopes: []string{cfggen.ScopeA}, Commands: []cfggen.Command{{Name: "show", Action: 2}}, Authenticator: cfggen.BcryptAuth("pw-alpha")}, {Name: "bob", Scopes: []string{cfggen.ScopeB}}},
		PrefixDeny:  []string{"10.1.9.0/24"},
		PrefixAllow: []string{"10.0.0.0/8"},
	}
	b := cfggen.Config{Secrets: a.Secrets[:1], Users: []cfggen.User{{Name: "bob", Scopes: []string{cfggen.ScopeA}}}}
	c := cfggen.Config{Secrets: a.Secrets, Users: []cfggen.User{{Name: "carol", Scopes: []string{cfggen.ScopeB}, Accounter: cfggen.FileAccounter()}}, PrefixAllow: []string{"10.2.0.0/16"}}
	cse := map[string]interface{}{"docs": []cfggen.Config{a, b, c}}
	if err := os.WriteFile(path, a.YAML(), 0o600); err != nil {
		t.Fatalf("HARNESS-BUG: %v", err)
	}
	ctx, cancel := context.WithCancel(context.Background())
	defer cancel()
	wl := &watchLog{}
	w := fsnotify.New(ctx, yamll.New(), wl)
	if err := w.Load(path); err != nil {
		t.Fatalf("HARNESS-BUG: watcher refused the first document: %v", err)
	}
	next := func(what string) config.ServerConfig {
		select {
		case v := <-w.Config():
			return v
		case <-time.After(watchdog):
			// Nothing published.  The watcher's own log decides: if the last thing it did was to report
			// a failed reload, it has been silent since (it acts on file events only, and they have all
			// been delivered by now), and a fresh loader accepts the file as it stands, then the
			// configuration on disk will never be loaded.
			before := wl.snapshot()
			time.Sleep(3 * time.Second)
			after := wl.snapshot()
			fresh := yamll.New()
			if len(after) == len(before) && len(after) > 0 && after[len(after)-1].level == "error" && fresh.Load(path) == nil {
				violation(t, "C16", "watcher", "C16:watcher-reload-failed-for-acceptable-file", cse, "%s: the watcher published nothing; its last action was to report a failed reload (%q) although a fresh loader accepts the file as it stands", what, after[len(after)-1].text)
			}
			t.Fatalf("HARNESS-BUG/INCONCLUSIVE: the watcher published nothing within %v after %s", watchdog, what)
		}
		return config.ServerConfig{}
	}
	expect := func(what string, got config.ServerConfig, doc cfggen.Config) {
		fresh := yamll.New()
		if err := fresh.Unmarshal(doc.YAML()); err != nil {
			t.Fatalf("HARNESS-BUG: %v", err)
		}
		want := <-fresh.Config()
		if gs, ws := snapshot(got), snapshot(want); !reflect.DeepEqual(normJSON(gs), normJSON(ws)) {
			violation(t, "C16", "watcher", "C16:reload-differs-from-fresh", cse, "%s: the watcher published\n %s\n a fresh loader publishes\n %s", what, clipStr(gs), clipStr(ws))
		}
	}
	expect("initial load", next("the initial load"), a)
	rewrite := func(doc []byte) {
		tmp := path + ".new"
		if err := os.WriteFile(tmp, doc, 0o600); err != nil {
			t.Fatalf("HARNESS-BUG: %v", err)
		}
		// written in place (a write event on the watched file), in one call
		if err := os.WriteFile(path, doc, 0o600); err != nil {
			t.Fatalf("HARNESS-BUG: %v", err)
		}
		_ = os.Remove(tmp)
	}
	rewrite(b.YAML())
	got := next("rewriting the file with a smaller document")
	// a reload may catch the file between truncation and write only as an error (nothing published), so
	// the first thing published is the new document
	expect("after rewriting the file with a smaller document", got, b)
	rewrite([]byte("users: [\n  - name: {unbalanced\n"))
	rewrite(c.YAML())
	expect("after an invalid rewrite followed by a valid one", next("the third rewrite"), c)
	ev.Class("watcher:reload-via-file-events")
	ev.NonTrivial("watcher", cse)
	// the file is replaced atomically (a new file renamed over the path, as mv, rsync and editors do),
	// then edited in place: the edit is a change of the file like the ones above
	staging := filepath.Join(dir, ".staging-1")
	if err := os.WriteFile(staging, a.YAML(), 0o600); err != nil {
		t.Fatalf("HARNESS-BUG: %v", err)
	}
	if err := os.Rename(staging, path); err != nil {
		t.Fatalf("HARNESS-BUG: %v", err)
	}
	time.Sleep(1500 * time.Millisecond) // let a reload the rename may trigger happen first; it is optional
	if err := os.WriteFile(path, b.YAML(), 0o600); err != nil {
		t.Fatalf("HARNESS-BUG: %v", err)
	}
	aSnap := func() interface{} {
		fresh := yamll.New()
		_ = fresh.Unmarshal(a.YAML())
		return normJSON(snapshot(<-fresh.Config()))
	}()
	deadline := time.After(12 * time.Second)
	for {
		select {
		case v := <-w.Config():
			if reflect.DeepEqual(normJSON(snapshot(v)), aSnap) {
				continue // the renamed-in document, published by a reload the rename triggered
			}
			expect("after an atomic replace followed by an edit in place", v, b)
			ev.Class("watcher:reload-after-atomic-replace")
			return
		case <-deadline:
			// Nothing was published.  Whether anything ever can be is read from the process' inotify
			// state, not from the clock: if no watch covers the file or its directory any more, no
			// change of the file can reach the watcher.
			if covered, detail := inotifyCovers(dir, path); !covered {
				violation(t, "C16", "watcher", "C16:watcher-lost-the-file", cse, "after the file was replaced by rename and then edited in place the watcher published nothing, and no inotify watch of this process covers the file or its directory (%s): documents that remove rights are never loaded again", detail)
			}
			t.Fatalf("HARNESS-BUG/INCONCLUSIVE: the watcher published nothing after an edit in place, although the file is still watched")
		}
	}
}

// watchLog records what the watcher logs.
type watchLog struct {
	mu   sync.Mutex
	recs []watchRec
}

type watchRec struct{ level, text string }

func (l *watchLog) add(level, format string, args []interface{}) {
	l.mu.Lock()
	l.recs = append(l.recs, watchRec{level, fmt.Sprintf(format, args...)})
	l.mu.Unlock()
}
func (l *watchLog) Infof(ctx context.Context, format string, args ...interface{}) {
	l.add("info", format, args)
}
func (l *watchLog) Errorf(ctx context.Context, format string, args ...interface{}) {
	l.add("error", format, args)
}
func (l *watchLog) Debugf(ctx context.Context, format string, args ...interface{}) {
	l.add("debug", format, args)
}
func (l *watchLog) snapshot() []watchRec {
	l.mu.Lock()
	defer l.mu.Unlock()
	return append([]watchRec{}, l.recs...)
}

// inotifyCovers: does any inotify instance of this process watch the inode of dir or of path?
func inotifyCovers(dir, path string) (bool, string) {
	want := map[uint64]bool{}
	for _, p := range []string{dir, path} {
		if fi, err := os.Stat(p); err == nil {
			if st, ok := fi.Sys().(*syscall.Stat_t); ok {
				want[st.Ino] = true
			}
		}
	}
	fds, err := os.ReadDir("/proc/self/fd")
	if err != nil {
		return true, "cannot read /proc/self/fd"
	}
	seen := 0
	for _, fd := range fds {
		if l, _ := os.Readlink("/proc/self/fd/" + fd.Name()); l != "anon_inode:inotify" {
			continue
		}
		info, err := os.ReadFile("/proc/self/fdinfo/" + fd.Name())
		if err != nil {
			return true, "cannot read fdinfo"
		}
		for _, line := range strings.Split(string(info), "\n") {
			if !strings.HasPrefix(line, "inotify ") {
				continue
			}
			for _, f := range strings.Fields(line) {
				if strings.HasPrefix(f, "ino:") {
					seen++
					if ino, err := strconv.ParseUint(f[4:], 16, 64); err == nil && want[ino] {
						return true, ""
					}
				}
			}
		}
	}
	return false, fmt.Sprintf("%d watches, none on the file or its directory", seen)
}

// TestC16EnumLive: fixed histories of documents loaded into a live reference stack in quick succession, whose
// differences show at the probe addresses (a scope dropped, a key changed, filters dropped, a document with
// thousands of users - slow to build - followed at once by a small one); after each history the live stack
// answers like a stack freshly started with the last document.  Deterministic, both formats.
func TestC16EnumLive(t *testing.T) {
	a := cfggen.Config{
		Secrets:     []cfggen.Secret{cfggen.NewSecret(cfggen.ScopeA, cfggen.KeyA, cfggen.PrefixA), cfggen.NewSecret(cfggen.ScopeB, cfggen.KeyB, cfggen.PrefixB)},
		Users:       []cfggen.User{{Name: "alice", Scopes: []string{cfggen.ScopeA, cfggen.ScopeB}, Authenticator: cfggen.BcryptAuth("pw-alpha")}},
		PrefixDeny:  []string{"10.1.9.0/24"},
		PrefixAllow: []string{"10.0.0.0/8"},
	}
	b := cfggen.Config{Secrets: a.Secrets[:1], Users: []cfggen.User{{Name: "bob", Scopes: []string{cfggen.ScopeA}}}}
	c := a.Clone()
	c.Secrets[0].Secret.Key, c.Secrets[1].Secret.Key = "changed-key-A", "changed-key-B"
	c.PrefixDeny, c.PrefixAllow = nil, nil
	d := cfggen.Config{Secrets: []cfggen.Secret{cfggen.NewSecret(cfggen.ScopeB, "only-b", cfggen.PrefixB, "172.16.0.0/12")}, Users: []cfggen.User{{Name: "carol", Scopes: []string{cfggen.ScopeB}}}}
	big := cfggen.Config{Secrets: []cfggen.Secret{cfggen.NewSecret(cfggen.ScopeA, "big-key-A", cfggen.PrefixA, "192.0.2.0/24"), cfggen.NewSecret(cfggen.ScopeB, "big-key-B", cfggen.PrefixB)}}
	for i := 0; i < 6000; i++ {
		big.Users = append(big.Users, cfggen.User{Name: fmt.Sprintf("u%05d", i), Scopes: []string{cfggen.ScopeA, cfggen.ScopeB}, Authenticator: cfggen.BcryptAuth("pw-alpha"),
			Commands: []cfggen.Command{{Name: "show", Match: []string{"version", "clock"}, Action: cfggen.ActionPermit}}})
	}
	histories := [][]cfggen.Config{{a, b}, {a, c}, {a, d}, {b, a}, {a, b, c}, {a, c, d, b}, {a, big, b}, {b, big, d}, {a, big, c, big, d}, {big, a}, {a, b, a, c, a, d}}
	for _, format := range []string{"yaml", "json"} {
		for _, h := range histories {
			ev.Eval()
			cse := c16Case{Format: format, Via: "unmarshal"}
			if len(h) > 2 && len(h[1].Users) > 1000 {
				cse.SettleMs = 500
			}
			for _, doc := range h {
				cse.Docs = append(cse.Docs, c16Doc{Kind: "valid", Cfg: doc})
			}
			journal("C16", cse)
			runC16Live(t, cse, nil)
			ev.Class("live-variant:fixed-history")
		}
	}
}
