package harness

import (
	"fmt"

	tq "github.com/facebookincubator/tacquito"
	"verif/harness/model"

	"pgregory.net/rapid"
)

// Conversions between the model's plain structs and the library's types, and a uniform view of the
// nine codec types.

func toArgs(a []model.B) tq.Args {
	if a == nil {
		return nil
	}
	out := make(tq.Args, len(a))
	for i, v := range a {
		out[i] = tq.Arg(v)
	}
	return out
}

func fromArgs(a tq.Args) []model.B {
	out := make([]model.B, len(a))
	for i, v := range a {
		out[i] = model.B(v)
	}
	return out
}

func b(s string) model.B { return model.B([]byte(s)) }

func libHeader(h model.Header) *tq.Header {
	return &tq.Header{
		Version:   tq.Version{MajorVersion: h.Version >> 4, MinorVersion: h.Version & 0xf},
		Type:      tq.HeaderType(h.Type),
		SeqNo:     tq.SequenceNumber(h.Seq),
		Flags:     tq.HeaderFlag(h.Flags),
		SessionID: tq.SessionID(h.Session),
		Length:    h.Length,
	}
}

func modelHeader(h *tq.Header) model.Header {
	return model.Header{
		Version: h.Version.MajorVersion<<4 | h.Version.MinorVersion&0xf,
		Type:    byte(h.Type), Seq: byte(h.SeqNo), Flags: byte(h.Flags),
		Session: uint32(h.SessionID), Length: h.Length,
	}
}

// PacketM is the model's view of a whole packet for the Packet codec.
type PacketM struct {
	H    model.Header `json:"h"`
	Body model.B      `json:"body"`
}

type codec struct {
	name     string
	gen      func(t *rapid.T) interface{}
	encode   func(m interface{}) []byte
	decode   func(b []byte) (m interface{}, ok, exact bool)
	toLib    func(m interface{}) tq.EncoderDecoder
	newLib   func() tq.EncoderDecoder
	fromLib  func(v tq.EncoderDecoder) interface{}
	validate func(v tq.EncoderDecoder) error
	// fields lists the variable-length fields of a model value in wire order (for C04)
	fields func(m interface{}) []model.B
	// nontrivial by the C01 rule
	nontrivial func(m interface{}) bool
}

func nonEmpty(fs ...model.B) int {
	n := 0
	for _, f := range fs {
		if len(f) > 0 {
			n++
		}
	}
	return n
}

func anyLen(min int, fs ...model.B) bool {
	for _, f := range fs {
		if len(f) >= min {
			return true
		}
	}
	return false
}

var codecs = []codec{
	{
		name:   "Header",
		gen:    func(t *rapid.T) interface{} { return genHeader(t) },
		encode: func(m interface{}) []byte { return model.EncodeHeader(m.(model.Header)) },
		decode: func(b []byte) (interface{}, bool, bool) {
			h, ok := model.DecodeHeader(b)
			return h, ok, ok && len(b) == 12
		},
		toLib:    func(m interface{}) tq.EncoderDecoder { return hdrED{libHeader(m.(model.Header))} },
		newLib:   func() tq.EncoderDecoder { return hdrED{&tq.Header{}} },
		fromLib:  func(v tq.EncoderDecoder) interface{} { return modelHeader(v.(hdrED).Header) },
		validate: func(v tq.EncoderDecoder) error { return v.(hdrED).Header.Validate() },
		fields:   func(m interface{}) []model.B { return nil },
		nontrivial: func(m interface{}) bool {
			h := m.(model.Header)
			return h.Flags != 0 || h.Version&1 == 1 || h.Seq >= 253 || h.Length >= 256
		},
	},
	{
		name: "Packet",
		gen: func(t *rapid.T) interface{} {
			h := genHeader(t)
			n := rapid.OneOf(rapid.IntRange(0, 40), rapid.SampledFrom([]int{0, 1, 15, 16, 17, 255, 256, 4096, 65535, 65536})).Draw(t, "body_len")
			body := genBytes(t, "body", n, alphaAny)
			h.Length = uint32(n)
			return PacketM{H: h, Body: body}
		},
		encode: func(m interface{}) []byte {
			p := m.(PacketM)
			return append(model.EncodeHeader(p.H), p.Body...)
		},
		decode: func(b []byte) (interface{}, bool, bool) {
			h, ok := model.DecodeHeader(b)
			if !ok || uint64(len(b)-12) < uint64(h.Length) {
				return PacketM{}, false, false
			}
			return PacketM{H: h, Body: append(model.B{}, b[12:12+int(h.Length)]...)}, true, len(b) == 12+int(h.Length)
		},
		toLib: func(m interface{}) tq.EncoderDecoder {
			p := m.(PacketM)
			return &tq.Packet{Header: libHeader(p.H), Body: append([]byte{}, p.Body...)}
		},
		newLib: func() tq.EncoderDecoder { return &tq.Packet{} },
		fromLib: func(v tq.EncoderDecoder) interface{} {
			p := v.(*tq.Packet)
			return PacketM{H: modelHeader(p.Header), Body: append(model.B{}, p.Body...)}
		},
		validate: func(v tq.EncoderDecoder) error {
			p := v.(*tq.Packet)
			if p.Header == nil {
				return fmt.Errorf("nil header")
			}
			return p.Header.Validate()
		},
		fields:     func(m interface{}) []model.B { return []model.B{m.(PacketM).Body} },
		nontrivial: func(m interface{}) bool { return len(m.(PacketM).Body) > 0 && m.(PacketM).H.Flags != 0 },
	},
	{
		name:   "AuthenStart",
		gen:    func(t *rapid.T) interface{} { return genAuthenStart(t) },
		encode: func(m interface{}) []byte { return m.(model.AuthenStart).Encode() },
		decode: func(b []byte) (interface{}, bool, bool) { return model.DecodeAuthenStart(b) },
		toLib: func(m interface{}) tq.EncoderDecoder {
			a := m.(model.AuthenStart)
			return &tq.AuthenStart{Action: tq.AuthenAction(a.Action), PrivLvl: tq.PrivLvl(a.Priv), Type: tq.AuthenType(a.AType),
				Service: tq.AuthenService(a.Service), User: tq.AuthenUser(a.User), Port: tq.AuthenPort(a.Port),
				RemAddr: tq.AuthenRemAddr(a.RemAddr), Data: tq.AuthenData(a.Data)}
		},
		newLib: func() tq.EncoderDecoder { return &tq.AuthenStart{} },
		fromLib: func(v tq.EncoderDecoder) interface{} {
			a := v.(*tq.AuthenStart)
			return model.AuthenStart{Action: byte(a.Action), Priv: byte(a.PrivLvl), AType: byte(a.Type), Service: byte(a.Service),
				User: b(string(a.User)), Port: b(string(a.Port)), RemAddr: b(string(a.RemAddr)), Data: b(string(a.Data))}
		},
		validate: func(v tq.EncoderDecoder) error { return v.(*tq.AuthenStart).Validate() },
		fields: func(m interface{}) []model.B {
			a := m.(model.AuthenStart)
			return []model.B{a.User, a.Port, a.RemAddr, a.Data}
		},
		nontrivial: func(m interface{}) bool {
			a := m.(model.AuthenStart)
			return nonEmpty(a.User, a.Port, a.RemAddr, a.Data) >= 2
		},
	},
	{
		name:   "AuthenReply",
		gen:    func(t *rapid.T) interface{} { return genAuthenReply(t) },
		encode: func(m interface{}) []byte { return m.(model.AuthenReply).Encode() },
		decode: func(b []byte) (interface{}, bool, bool) { return model.DecodeAuthenReply(b) },
		toLib: func(m interface{}) tq.EncoderDecoder {
			a := m.(model.AuthenReply)
			return &tq.AuthenReply{Status: tq.AuthenStatus(a.Status), Flags: tq.AuthenReplyFlag(a.Flags),
				ServerMsg: tq.AuthenServerMsg(a.ServerMsg), Data: tq.AuthenData(a.Data)}
		},
		newLib: func() tq.EncoderDecoder { return &tq.AuthenReply{} },
		fromLib: func(v tq.EncoderDecoder) interface{} {
			a := v.(*tq.AuthenReply)
			return model.AuthenReply{Status: byte(a.Status), Flags: byte(a.Flags), ServerMsg: b(string(a.ServerMsg)), Data: b(string(a.Data))}
		},
		validate: func(v tq.EncoderDecoder) error { return v.(*tq.AuthenReply).Validate() },
		fields: func(m interface{}) []model.B {
			a := m.(model.AuthenReply)
			return []model.B{a.ServerMsg, a.Data}
		},
		nontrivial: func(m interface{}) bool {
			a := m.(model.AuthenReply)
			return nonEmpty(a.ServerMsg, a.Data) >= 2 || anyLen(256, a.ServerMsg, a.Data)
		},
	},
	{
		name:   "AuthenContinue",
		gen:    func(t *rapid.T) interface{} { return genAuthenContinue(t) },
		encode: func(m interface{}) []byte { return m.(model.AuthenContinue).Encode() },
		decode: func(b []byte) (interface{}, bool, bool) { return model.DecodeAuthenContinue(b) },
		toLib: func(m interface{}) tq.EncoderDecoder {
			a := m.(model.AuthenContinue)
			return &tq.AuthenContinue{Flags: tq.AuthenContinueFlag(a.Flags), UserMessage: tq.AuthenUserMessage(a.UserMsg), Data: tq.AuthenData(a.Data)}
		},
		newLib: func() tq.EncoderDecoder { return &tq.AuthenContinue{} },
		fromLib: func(v tq.EncoderDecoder) interface{} {
			a := v.(*tq.AuthenContinue)
			return model.AuthenContinue{Flags: byte(a.Flags), UserMsg: b(string(a.UserMessage)), Data: b(string(a.Data))}
		},
		validate: func(v tq.EncoderDecoder) error { return v.(*tq.AuthenContinue).Validate() },
		fields: func(m interface{}) []model.B {
			a := m.(model.AuthenContinue)
			return []model.B{a.UserMsg, a.Data}
		},
		nontrivial: func(m interface{}) bool {
			a := m.(model.AuthenContinue)
			return nonEmpty(a.UserMsg, a.Data) >= 2 || anyLen(256, a.UserMsg, a.Data)
		},
	},
	{
		name:   "AuthorRequest",
		gen:    func(t *rapid.T) interface{} { return genAuthorRequest(t) },
		encode: func(m interface{}) []byte { return m.(model.AuthorRequest).Encode() },
		decode: func(b []byte) (interface{}, bool, bool) { return model.DecodeAuthorRequest(b) },
		toLib: func(m interface{}) tq.EncoderDecoder {
			a := m.(model.AuthorRequest)
			return &tq.AuthorRequest{Method: tq.AuthenMethod(a.Method), PrivLvl: tq.PrivLvl(a.Priv), Type: tq.AuthenType(a.AType),
				Service: tq.AuthenService(a.Service), User: tq.AuthenUser(a.User), Port: tq.AuthenPort(a.Port),
				RemAddr: tq.AuthenRemAddr(a.RemAddr), Args: toArgs(a.Args)}
		},
		newLib: func() tq.EncoderDecoder { return &tq.AuthorRequest{} },
		fromLib: func(v tq.EncoderDecoder) interface{} {
			a := v.(*tq.AuthorRequest)
			return model.AuthorRequest{Method: byte(a.Method), Priv: byte(a.PrivLvl), AType: byte(a.Type), Service: byte(a.Service),
				User: b(string(a.User)), Port: b(string(a.Port)), RemAddr: b(string(a.RemAddr)), Args: fromArgs(a.Args)}
		},
		validate: func(v tq.EncoderDecoder) error { return v.(*tq.AuthorRequest).Validate() },
		fields: func(m interface{}) []model.B {
			a := m.(model.AuthorRequest)
			return append([]model.B{a.User, a.Port, a.RemAddr}, a.Args...)
		},
		nontrivial: func(m interface{}) bool {
			a := m.(model.AuthorRequest)
			return nonEmpty(a.User, a.Port, a.RemAddr) >= 2 || len(a.Args) >= 1
		},
	},
	{
		name:   "AuthorReply",
		gen:    func(t *rapid.T) interface{} { return genAuthorReply(t) },
		encode: func(m interface{}) []byte { return m.(model.AuthorReply).Encode() },
		decode: func(b []byte) (interface{}, bool, bool) { return model.DecodeAuthorReply(b) },
		toLib: func(m interface{}) tq.EncoderDecoder {
			a := m.(model.AuthorReply)
			return &tq.AuthorReply{Status: tq.AuthorStatus(a.Status), ServerMsg: tq.AuthorServerMsg(a.ServerMsg), Data: tq.AuthorData(a.Data), Args: toArgs(a.Args)}
		},
		newLib: func() tq.EncoderDecoder { return &tq.AuthorReply{} },
		fromLib: func(v tq.EncoderDecoder) interface{} {
			a := v.(*tq.AuthorReply)
			return model.AuthorReply{Status: byte(a.Status), ServerMsg: b(string(a.ServerMsg)), Data: b(string(a.Data)), Args: fromArgs(a.Args)}
		},
		validate: func(v tq.EncoderDecoder) error { return v.(*tq.AuthorReply).Validate() },
		fields: func(m interface{}) []model.B {
			a := m.(model.AuthorReply)
			return append([]model.B{a.ServerMsg, a.Data}, a.Args...)
		},
		nontrivial: func(m interface{}) bool {
			a := m.(model.AuthorReply)
			return nonEmpty(a.ServerMsg, a.Data) >= 2 || len(a.Args) >= 1 || anyLen(256, a.ServerMsg, a.Data)
		},
	},
	{
		name:   "AcctRequest",
		gen:    func(t *rapid.T) interface{} { return genAcctRequest(t) },
		encode: func(m interface{}) []byte { return m.(model.AcctRequest).Encode() },
		decode: func(b []byte) (interface{}, bool, bool) { return model.DecodeAcctRequest(b) },
		toLib: func(m interface{}) tq.EncoderDecoder {
			a := m.(model.AcctRequest)
			return &tq.AcctRequest{Flags: tq.AcctRequestFlag(a.Flags), Method: tq.AuthenMethod(a.Method), PrivLvl: tq.PrivLvl(a.Priv), Type: tq.AuthenType(a.AType),
				Service: tq.AuthenService(a.Service), User: tq.AuthenUser(a.User), Port: tq.AuthenPort(a.Port),
				RemAddr: tq.AuthenRemAddr(a.RemAddr), Args: toArgs(a.Args)}
		},
		newLib: func() tq.EncoderDecoder { return &tq.AcctRequest{} },
		fromLib: func(v tq.EncoderDecoder) interface{} {
			a := v.(*tq.AcctRequest)
			return model.AcctRequest{Flags: byte(a.Flags), Method: byte(a.Method), Priv: byte(a.PrivLvl), AType: byte(a.Type), Service: byte(a.Service),
				User: b(string(a.User)), Port: b(string(a.Port)), RemAddr: b(string(a.RemAddr)), Args: fromArgs(a.Args)}
		},
		validate: func(v tq.EncoderDecoder) error { return v.(*tq.AcctRequest).Validate() },
		fields: func(m interface{}) []model.B {
			a := m.(model.AcctRequest)
			return append([]model.B{a.User, a.Port, a.RemAddr}, a.Args...)
		},
		nontrivial: func(m interface{}) bool {
			a := m.(model.AcctRequest)
			return nonEmpty(a.User, a.Port, a.RemAddr) >= 2 || len(a.Args) >= 1
		},
	},
	{
		name:   "AcctReply",
		gen:    func(t *rapid.T) interface{} { return genAcctReply(t) },
		encode: func(m interface{}) []byte { return m.(model.AcctReply).Encode() },
		decode: func(b []byte) (interface{}, bool, bool) { return model.DecodeAcctReply(b) },
		toLib: func(m interface{}) tq.EncoderDecoder {
			a := m.(model.AcctReply)
			return &tq.AcctReply{Status: tq.AcctReplyStatus(a.Status), ServerMsg: tq.AcctServerMsg(a.ServerMsg), Data: tq.AcctData(a.Data)}
		},
		newLib: func() tq.EncoderDecoder { return &tq.AcctReply{} },
		fromLib: func(v tq.EncoderDecoder) interface{} {
			a := v.(*tq.AcctReply)
			return model.AcctReply{Status: byte(a.Status), ServerMsg: b(string(a.ServerMsg)), Data: b(string(a.Data))}
		},
		validate: func(v tq.EncoderDecoder) error { return v.(*tq.AcctReply).Validate() },
		fields: func(m interface{}) []model.B {
			a := m.(model.AcctReply)
			return []model.B{a.ServerMsg, a.Data}
		},
		nontrivial: func(m interface{}) bool {
			a := m.(model.AcctReply)
			return nonEmpty(a.ServerMsg, a.Data) >= 2 || anyLen(256, a.ServerMsg, a.Data)
		},
	},
}

// hdrED adapts *tq.Header (which has no pointer-receiver Fields) to EncoderDecoder.
type hdrED struct{ *tq.Header }

func (h hdrED) Fields() map[string]string { return h.Header.Fields() }

func codecByName(name string) *codec {
	for i := range codecs {
		if codecs[i].name == name {
			return &codecs[i]
		}
	}
	return nil
}
