package harness

import (
	"fmt"
	"net"
	"runtime"
	"strings"
	"syscall"
	"testing"
	"time"

	"verif/harness/cfggen"
	"verif/harness/ev"
	"verif/harness/model"
	"verif/harness/refsrv"

	"pgregory.net/rapid"
)

// C14 — no client input can crash the server or disturb other clients.

type c14Chunk struct {
	Wire model.B `json:"wire"`
	Note string  `json:"note"`
	// Line: in proxy mode, what precedes this chunk instead of a well-formed HAProxy line (nil = well-formed)
	Line *model.B `json:"line,omitempty"`
}

type c14Conn struct {
	// Scope the connection comes from; "none" = an address no secret configuration covers
	Scope string `json:"scope"`
	// AcceptFault: before this connection the listener's Accept fails once with a temporary error
	// that is not a timeout (what EMFILE looks like)
	AcceptFault bool       `json:"accept_fault,omitempty"`
	Chunks      []c14Chunk `json:"chunks"`
	EOF         bool       `json:"eof"` // the client closes at the end (else it just goes silent)
	// Fault: "" | "write-fails" (the client is gone when the server replies: every Write on the connection
	// fails from the start) | "reset" (the connection ends in a read error instead of EOF)
	Fault string `json:"fault,omitempty"`
}

type c14Case struct {
	World  cfggen.World `json:"world"`
	Format string       `json:"format"`
	Conns  []c14Conn    `json:"conns"`
	// Proxy: the server expects an HAProxy protocol line (terminated by NUL) before every packet
	Proxy bool `json:"proxy,omitempty"`
}

const ctlUser, ctlPassword = "ctl", "pw-foxtrot"

// oddWorld adds the configurations the loader accepts but that are unusual: authenticators and
// accounters with missing or odd options, users with nothing, a user named like a path.
func oddWorld(t *rapid.T) cfggen.World {
	w := cfggen.GenWorld(t)
	drawExtraKeys(t, &w.Cfg)
	extra := []cfggen.User{
		{Name: "nohash", Scopes: []string{cfggen.ScopeA, cfggen.ScopeB}, Authenticator: &cfggen.Authenticator{Type: cfggen.AuthnBcrypt, Options: map[string]string{"key": "zz"}}, Accounter: &cfggen.Accounter{Name: "file", Type: cfggen.AcctFile, Options: map[string]string{"": ""}}},
		{Name: "noopts", Scopes: []string{cfggen.ScopeA}, Authenticator: &cfggen.Authenticator{Type: cfggen.AuthnBcrypt}},
		{Name: "badhex", Scopes: []string{cfggen.ScopeA}, Authenticator: &cfggen.Authenticator{Type: cfggen.AuthnBcrypt, Options: map[string]string{"hash": "0g"}}},
		{Name: "shorthash", Scopes: []string{cfggen.ScopeA}, Authenticator: &cfggen.Authenticator{Type: cfggen.AuthnBcrypt, Options: map[string]string{"hash": "2432"}}},
		{Name: "nothing", Scopes: []string{cfggen.ScopeA}},
		{Name: "emptyrules", Scopes: []string{cfggen.ScopeA}, Commands: []cfggen.Command{{}, {Name: "*"}}, Services: []cfggen.Service{{}, {Name: "shell", SetValues: []cfggen.Value{{}}, Match: []cfggen.Value{{}}}},
			Groups: []cfggen.Group{{}, {Name: "g", Authenticator: &cfggen.Authenticator{}, Accounter: &cfggen.Accounter{}}}},
	}
	n := rapid.IntRange(0, len(extra)).Draw(t, "nextra")
	for i := 0; i < n; i++ {
		w.Cfg.Users = append(w.Cfg.Users, extra[rapid.IntRange(0, len(extra)-1).Draw(t, "extra")])
	}
	// a user with a generated command/service policy (invalid and odd patterns included)
	w.Cfg.Users = append(w.Cfg.Users, cfggen.User{Name: "ruler", Scopes: []string{cfggen.ScopeA, cfggen.ScopeB}, Commands: genRules(t, 6), Services: genServices(t, 3),
		Groups: []cfggen.Group{{Name: "g", Commands: genRules(t, 3)}}})
	// a secret configuration whose prefix list is valid JSON but holds nothing that parses as a CIDR
	if rapid.IntRange(0, 2).Draw(t, "unparsable_prefix_scope") == 0 {
		sc := cfggen.NewSecret("sC", "key-C", rapid.SampledFrom([]string{"10.3.0.1", "not-a-prefix", ""}).Draw(t, "bad_prefix"))
		pos := rapid.IntRange(0, len(w.Cfg.Secrets)).Draw(t, "bad_scope_pos")
		w.Cfg.Secrets = append(w.Cfg.Secrets[:pos], append([]cfggen.Secret{sc}, w.Cfg.Secrets[pos:]...)...)
		w.Cfg.Users = append(w.Cfg.Users, cfggen.User{Name: "cuser", Scopes: []string{"sC"}})
	}
	// the control user, in both scopes
	w.Cfg.Users = append(w.Cfg.Users, cfggen.User{Name: ctlUser, Scopes: []string{cfggen.ScopeA, cfggen.ScopeB}, Authenticator: cfggen.BcryptAuth(ctlPassword)})
	return w
}

func mutateBytes(t *rapid.T, b []byte, label string) []byte {
	out := append([]byte{}, b...)
	if len(out) == 0 {
		return out
	}
	n := rapid.IntRange(1, 3).Draw(t, label+"_n")
	for i := 0; i < n; i++ {
		pos := rapid.OneOf(rapid.IntRange(0, min(len(out)-1, 11)), rapid.IntRange(0, len(out)-1)).Draw(t, label+"_pos")
		out[pos] = rapid.OneOf(rapid.SampledFrom([]byte{0, 1, 0x7f, 0x80, 0xff}), rapid.Byte()).Draw(t, label+"_val")
	}
	return out
}

func genC14Conn(t *rapid.T, w cfggen.World) c14Conn {
	cc := c14Conn{Scope: pickServingScope(t, w), EOF: rapid.Bool().Draw(t, "eof"), AcceptFault: rapid.IntRange(0, 5).Draw(t, "accept_fault") == 0,
		Fault: rapid.SampledFrom([]string{"", "", "", "", "write-fails", "reset"}).Draw(t, "conn_fault")}
	if rapid.IntRange(0, 5).Draw(t, "stranger") == 0 {
		cc.Scope = "none"
	}
	key := scopeKey(cc.Scope)
	var names []string
	for n := range w.Cfg.ScopeUsers(cc.Scope) {
		names = append(names, n)
	}
	sortStrings(names)
	names = append(names, "mallory", "")
	seqs := map[uint32]int{}
	var pend []authPkt
	var pendSess uint32
	n := rapid.IntRange(1, 8).Draw(t, "nchunks")
	for i := 0; i < n; i++ {
		sess := rapid.SampledFrom([]uint32{1, 2, 3}).Draw(t, "sess")
		kind := rapid.SampledFrom([]string{"authen", "authen", "author", "author-policy", "author-policy", "acct", "foreign", "garbage", "lengths", "authen-next", "authen-next"}).Draw(t, "kind")
		var typ, minor byte
		var body []byte
		note := kind
		switch kind {
		case "authen-next":
			if len(pend) == 0 {
				continue
			}
			sess, typ, minor, body = pendSess, 1, pend[0].Minor, pend[0].body()
			pend = pend[1:]
		case "authen":
			sc := genAuthScript(t, w, cc.Scope, 0)
			if len(sc.Pkts) == 0 {
				continue
			}
			typ, minor, body = 1, sc.Pkts[0].Minor, sc.Pkts[0].body()
			pend, pendSess = sc.Pkts[1:], sess
			note = "authen:" + sc.Flavour
		case "author-policy":
			// the kind of request C11 sends, for the user with the generated policy; often sent twice
			r := genC11Request(t, []string{"ruler", "ruler", "ruler", "mallory"})
			// hostile: arguments that are no attribute-value pairs at all (no separator, only separators)
			for k := rapid.IntRange(0, 5).Draw(t, "odd_args"); k >= 4 && len(r.Args) < 250; k-- {
				odd := rapid.SampledFrom([]string{"nohup", "ab", "==", "**", "*=", "service", "cmd-arg", "=x", "*x", "x=", "  ", "shell"}).Draw(t, "odd_arg")
				at := rapid.IntRange(0, len(r.Args)).Draw(t, "odd_at")
				r.Args = append(r.Args[:at], append([]string{odd}, r.Args[at:]...)...)
			}
			var margs []model.B
			for _, a := range r.Args {
				margs = append(margs, model.B(a))
			}
			typ = 2
			body = model.AuthorRequest{Method: 6, Priv: 1, AType: 1, Service: 1, User: model.B(r.User), Port: b("p"), RemAddr: b("r"), Args: margs}.Encode()
			if rapid.Bool().Draw(t, "twice") {
				if seqs[sess] == 0 {
					seqs[sess] = 1
				}
				h := model.Header{Version: 0xc0, Type: typ, Seq: byte(seqs[sess]), Session: sess}
				cc.Chunks = append(cc.Chunks, c14Chunk{Wire: model.Frame(key, h, body), Note: "author-policy"})
			}
		case "author":
			args := [][]string{{"service=shell", "cmd=show", "cmd-arg=x"}, {"service=shell", "cmd="}, {"service=ppp", "protocol=ip"}, {}, {"cmd=show"}, {"=", "**", "a="}}[rapid.IntRange(0, 5).Draw(t, "args")]
			var margs []model.B
			for _, a := range args {
				margs = append(margs, model.B(a))
			}
			typ = 2
			body = model.AuthorRequest{Method: 6, Priv: 1, AType: 1, Service: 1, User: model.B(rapid.SampledFrom(names).Draw(t, "user")), Port: b("p"), RemAddr: b("r"), Args: margs}.Encode()
		case "acct":
			typ = 3
			args := []model.B{b(""), b("x")}
			flags := rapid.Byte().Draw(t, "flags")
			if rapid.Bool().Draw(t, "standard_attributes") {
				// what a device reports: the standard attributes with values at the edges (and a flag octet
				// that makes the record acceptable)
				args = genAttrArgs(t, "attr", rapid.IntRange(1, 6).Draw(t, "nattrs"))
				flags = rapid.SampledFrom([]byte{2, 4, 8, 0x0a}).Draw(t, "record_flags")
			}
			body = model.AcctRequest{Flags: flags, Method: 6, Priv: 1, AType: 1, Service: 1, User: model.B(rapid.SampledFrom(names).Draw(t, "user")), Port: b("tty0"), RemAddr: b("r"), Args: args}.Encode()
		case "foreign":
			typ = rapid.SampledFrom([]byte{1, 2, 3}).Draw(t, "hdr_type")
			body = genRequestBody(t, rapid.SampledFrom([]byte{1, 2, 3}).Draw(t, "body_type"))
		case "garbage":
			cc.Chunks = append(cc.Chunks, c14Chunk{Wire: rapid.SliceOfN(rapid.Byte(), 1, 120).Draw(t, "garbage"), Note: "garbage"})
			continue
		case "lengths":
			h := model.Header{Version: 0xc0, Type: rapid.SampledFrom([]byte{1, 2, 3}).Draw(t, "hdr_type"), Seq: 1, Session: sess,
				Length: rapid.SampledFrom([]uint32{0, 1, 4, 5, 8, 9, 65536, 65537, 0xffffffff}).Draw(t, "length")}
			tail := rapid.SliceOfN(rapid.Byte(), 0, 12).Draw(t, "tail")
			if (h.Length == 65536 || h.Length == 9) && rapid.Bool().Draw(t, "whole_body_present") {
				// the announced body is all there (at 65536 octets: the largest packet there is), obfuscated
				// or not, whatever it decodes to
				h.Flags = rapid.SampledFrom([]byte{0, 0, 1, 4}).Draw(t, "full_flags")
				fill := rapid.Byte().Draw(t, "full_fill")
				tail = make([]byte, h.Length)
				for k := range tail {
					tail[k] = fill + byte(k%7)
				}
			}
			cc.Chunks = append(cc.Chunks, c14Chunk{Wire: append(model.EncodeHeader(h), tail...), Note: "lengths"})
			continue
		}
		if seqs[sess] == 0 {
			seqs[sess] = 1
		}
		h := model.Header{Version: 0xc0 | minor, Type: typ, Seq: byte(seqs[sess]), Session: sess, Flags: rapid.SampledFrom([]byte{0, 0, 0, 4, 1}).Draw(t, "flags")}
		seqs[sess] += 2
		if seqs[sess] > 255 {
			seqs[sess] = 1
		}
		switch rapid.IntRange(0, 5).Draw(t, "mutation") {
		case 0:
			body = mutateBytes(t, body, "body")
			note += "+body-mutated"
		case 1:
			if len(body) > 0 {
				body = body[:rapid.IntRange(0, len(body)-1).Draw(t, "cut")]
				note += "+body-cut"
			}
		}
		wire := model.Frame(key, h, body)
		if rapid.IntRange(0, 7).Draw(t, "hdr_mutation") == 0 {
			hdr := mutateBytes(t, wire[:12], "hdr")
			wire = append(hdr, wire[12:]...)
			note += "+header-mutated"
		}
		cc.Chunks = append(cc.Chunks, c14Chunk{Wire: wire, Note: note})
	}
	return cc
}

func genC14(t *rapid.T) c14Case {
	c := c14Case{World: oddWorld(t), Format: rapid.SampledFrom([]string{"yaml", "yaml", "json"}).Draw(t, "format")}
	n := rapid.IntRange(1, 4).Draw(t, "nconns")
	for i := 0; i < n; i++ {
		c.Conns = append(c.Conns, genC14Conn(t, c.World))
	}
	if rapid.IntRange(0, 3).Draw(t, "proxy_mode") == 0 {
		c.Proxy = true
		for i := range c.Conns {
			for j := range c.Conns[i].Chunks {
				if rapid.IntRange(0, 3).Draw(t, "hostile_line") == 0 {
					l := model.B(rapid.SampledFrom([]string{"\x00", "\n\x00", "\r\n\x00", "PROXY\x00", "PROXY TCP4 1.2.3.4\r\n\x00", "PROXY TCP9 a b c d\r\n\x00",
						"PROXY TCP4 1.2.3.4 5.6.7.8 1 2", "", "PROXY  TCP6 :: :: 0 0 \r\n\x00", "\x00\x00\x00", "PROXY TCP4 300.1.1.1 x -1 99999999999\r\n\x00"}).Draw(t, "line"))
					c.Conns[i].Chunks[j].Line = &l
				}
			}
		}
	}
	return c
}

func runC14(t failer, c c14Case) (handled int) {
	ev.Eval()
	journal("C14", c)
	c.World.Cfg.Restore()
	fail := func(sig, format string, args ...interface{}) {
		violation(t, "C14", "robustness", "C14:"+sig, c, format, args...)
	}
	env, err := startRef(c.World.Cfg, refOpts{format: c.Format, keychain: refsrv.MapKeychain(c.World.KeychainBytes()), recover: true, proxy: c.Proxy, realLog: 30})
	if err != nil {
		ev.Class("config-refused")
		return 0
	}
	if c.Proxy {
		ev.Class("proxy-mode")
	}
	defer func() {
		if e := env.stop(); e != nil {
			t.Fatalf("%v", e)
		}
	}()
	control := func(after string, i int, scope string) {
		d, err := env.dial(cfggen.AddrIn(scope, 200).IP(), 9000+i)
		if err == errServeGone {
			fail("server-stopped-serving", "%s: %v", after, err)
		}
		if err != nil {
			t.Fatalf("%v", err)
		}
		if c.Proxy {
			d.c.Feed([]byte(proxyLine))
		}
		st, pkts, closed, err := papLogin(d, scopeKey(scope), 0xc0ffee, ctlUser, ctlPassword)
		if err != nil {
			t.Fatalf("%v", err)
		}
		if st != stPass {
			fail("other-client-disturbed", "%s: a known-good PAP login on a fresh connection got status %d (%d packets, closed=%v) instead of PASS", after, st, len(pkts), closed)
		}
		d.c.FeedEOF()
	}
	control("before any hostile connection", 0, cfggen.ScopeA)
	for i, cc := range c.Conns {
		ip := cfggen.AddrIn(cc.Scope, byte(10+i)).IP()
		ctlScope := cc.Scope
		if cc.Scope == "none" {
			ip = net.IPv4(10, 77, 0, byte(10+i))
			ctlScope = cfggen.ScopeA
			ev.Class("conn:from-uncovered-address")
		}
		if cc.AcceptFault {
			env.srv.ln.FailAccept(&net.OpError{Op: "accept", Net: "tcp", Err: tempErr{}})
			ev.Class("fault:temporary-accept-error")
		}
		conn, err := env.srv.connect(&net.TCPAddr{IP: ip, Port: 8000 + i})
		if err == errServeGone {
			fail("server-stopped-serving", "connection %d: %v (after a temporary accept error=%v)", i, err, cc.AcceptFault)
		}
		if err != nil {
			t.Fatalf("%v", err)
		}
		if cc.Fault != "" {
			ev.Class("fault:" + cc.Fault)
		}
		if cc.Fault == "write-fails" {
			conn.FailWrites(syscall.EPIPE)
		}
		for _, ch := range cc.Chunks {
			if conn.Closed() {
				break
			}
			if c.Proxy {
				if ch.Line != nil {
					conn.Feed(*ch.Line)
				} else {
					conn.Feed([]byte(proxyLine))
				}
			}
			conn.Feed(ch.Wire)
			if !conn.AwaitQuiescentOrClosed(watchdog) {
				t.Fatalf("HARNESS-BUG/INCONCLUSIVE: hostile connection %d wedged", i)
			}
		}
		if cc.Fault == "reset" {
			conn.FeedError(syscall.ECONNRESET)
		} else if cc.EOF {
			conn.FeedEOF()
		}
		for _, call := range env.rec.Calls() {
			if call.Panic != "" {
				fail("handler-panic", "connection %d: a handler panicked (recovered by the harness; in production this kills the server process): %s", i, call.Panic)
			}
		}
		handled = len(env.rec.Calls())
		control(fmt.Sprintf("after hostile connection %d", i), i+1, ctlScope)
	}
	return handled
}

func classifyC14(c c14Case, handled int) {
	for _, cc := range c.Conns {
		for _, ch := range cc.Chunks {
			ev.Class("chunk:" + ch.Note)
		}
	}
	if handled > len(c.Conns)+1 {
		ev.NonTrivial("c14", c)
	}
}

func TestC14(t *testing.T) {
	rapid.Check(t, func(rt *rapid.T) {
		c := genC14(rt)
		handled := runC14(rt, c)
		classifyC14(c, handled)
	})
}

func TestC14Regress(t *testing.T) {
	for _, s := range loadSaved(t, "C14") {
		var c c14Case
		mustUnmarshal(t, s, &c)
		runC14(t, c)
	}
}

// fixed configuration for the byte-level fuzz target
func c14FuzzWorld() cfggen.World {
	w := cfggen.World{Keychain: map[string]string{"kc": cfggen.Hashes["pw-alpha"]}}
	w.Cfg.Secrets = []cfggen.Secret{cfggen.NewSecret(cfggen.ScopeA, cfggen.KeyA, cfggen.PrefixA)}
	file := cfggen.FileAccounter()
	w.Cfg.Users = []cfggen.User{
		{Name: ctlUser, Scopes: []string{cfggen.ScopeA}, Authenticator: cfggen.BcryptAuth(ctlPassword), Accounter: file,
			Commands: []cfggen.Command{{Name: "show", Match: []string{"ver.*", "("}, Action: 2}, {Name: "*", Action: 1}},
			Services: []cfggen.Service{{Name: "shell", SetValues: []cfggen.Value{{Name: "priv-lvl", Values: []string{"15"}, Optional: true}}}, {Name: "ppp", Match: []cfggen.Value{{Name: "protocol", Values: []string{"ip"}}}, SetValues: []cfggen.Value{{Name: "rôle", Values: []string{"x"}}}}}},
		{Name: "kc", Scopes: []string{cfggen.ScopeA}, Authenticator: &cfggen.Authenticator{Type: cfggen.AuthnBcrypt, Options: map[string]string{"key": "kc"}}},
		{Name: "nohash", Scopes: []string{cfggen.ScopeA}, Authenticator: &cfggen.Authenticator{Type: cfggen.AuthnBcrypt, Options: map[string]string{"key": "zz"}}},
		{Name: "nothing", Scopes: []string{cfggen.ScopeA}},
	}
	return w
}

// FuzzC14ServerStream: bytes are cut into cleartext packets (type, minor, session, seq, flags, length
// prefix), obfuscated with the right key and fed to a fresh reference server; no handler may panic and
// a control login must still pass.
func FuzzC14ServerStream(f *testing.F) {
	seed := func(pk ...[]byte) []byte {
		var out []byte
		for _, p := range pk {
			out = append(out, p...)
		}
		return out
	}
	enc := func(typ, minor, sess, seq, flags byte, body []byte) []byte {
		return append([]byte{typ, minor, sess, seq, flags, byte(len(body) >> 8), byte(len(body))}, body...)
	}
	f.Add(seed(enc(1, 1, 1, 1, 0, model.AuthenStart{Action: 1, Priv: 1, AType: 2, Service: 1, User: b("nohash"), Port: b("p"), RemAddr: b("r"), Data: b("x")}.Encode())))
	f.Add(seed(enc(1, 0, 1, 1, 0, model.AuthenStart{Action: 1, Priv: 1, AType: 1, Service: 1, Port: b("p"), RemAddr: b("r")}.Encode()), enc(1, 0, 1, 3, 0, model.AuthenContinue{UserMsg: b("kc")}.Encode()), enc(1, 0, 1, 5, 0, model.AuthenContinue{UserMsg: b("pw-alpha")}.Encode())))
	f.Add(seed(enc(2, 0, 2, 1, 0, model.AuthorRequest{Method: 6, Priv: 1, AType: 1, Service: 1, User: b("ctl"), Args: []model.B{b("service=shell"), b("cmd=show"), b("cmd-arg=version")}}.Encode())))
	f.Add(seed(enc(2, 0, 2, 1, 0, model.AuthorRequest{Method: 6, Priv: 1, AType: 1, Service: 1, User: b("ctl"), Args: []model.B{b("service=ppp"), b("protocol=ip")}}.Encode())))
	f.Add(seed(enc(3, 0, 3, 1, 4, model.AcctRequest{Flags: 2, Method: 6, Priv: 1, AType: 1, Service: 1, User: b("ctl"), Args: []model.B{b("task_id=1")}}.Encode())))
	f.Add([]byte{0xff, 0xff, 0xff, 0xff, 0xff, 0xff, 0xff, 0xff, 0xff})
	w := c14FuzzWorld()
	f.Fuzz(func(t *testing.T, data []byte) {
		var c c14Case
		c.World, c.Format = w, "yaml"
		cc := c14Conn{Scope: cfggen.ScopeA, EOF: true}
		for len(data) >= 7 && len(cc.Chunks) < 8 {
			typ, minor, sess, seq, flags := data[0], data[1]&0x0f, data[2], data[3], data[4]
			n := int(data[5])<<8 | int(data[6])
			data = data[7:]
			if n > len(data) {
				n = len(data)
			}
			h := model.Header{Version: 0xc0 | minor, Type: typ, Seq: seq, Flags: flags &^ 0xfa, Session: uint32(sess)}
			if flags&0x80 != 0 {
				// a raw chunk: header octets as given
				cc.Chunks = append(cc.Chunks, c14Chunk{Wire: append([]byte{typ, minor, sess, seq}, data[:n]...), Note: "raw"})
			} else {
				cc.Chunks = append(cc.Chunks, c14Chunk{Wire: model.Frame([]byte(cfggen.KeyA), h, data[:n]), Note: "framed"})
			}
			data = data[n:]
		}
		c.Conns = []c14Conn{cc}
		runC14(t, c)
	})
}

// tempErr is a temporary, non-timeout network error (what accept returns on EMFILE/ENFILE).
type tempErr struct{}

func (tempErr) Error() string   { return "too many open files" }
func (tempErr) Timeout() bool   { return false }
func (tempErr) Temporary() bool { return true }

// TestC14EnumStalledReaders: more clients than the machine has processors log in and never read their
// replies (every Write to them blocks).  A well-behaved client that logs in afterwards must be served.  If
// it is not, the verdict is taken from the goroutines: its connection goroutine is parked on something
// inside the server (a channel, a lock) and stays there, while everything the harness owns is idle.
func TestC14EnumStalledReaders(t *testing.T) {
	ev.Eval()
	var w cfggen.World
	w.Keychain = map[string]string{}
	w.Cfg.Secrets = []cfggen.Secret{cfggen.NewSecret(cfggen.ScopeA, cfggen.KeyA, cfggen.PrefixA)}
	w.Cfg.Users = []cfggen.User{
		{Name: "alice", Scopes: []string{cfggen.ScopeA}, Authenticator: cfggen.BcryptAuth("pw-alpha"), Accounter: cfggen.FileAccounter(), Commands: []cfggen.Command{{Name: "show", Action: cfggen.ActionPermit}}},
		{Name: "bob", Scopes: []string{cfggen.ScopeA}, Authenticator: cfggen.BcryptAuth("pw-bravo")},
	}
	stalled := runtime.GOMAXPROCS(0) + 3
	cse := map[string]interface{}{"world": w, "stalled_readers": stalled}
	journal("C14", cse)
	env, err := startRef(w.Cfg, refOpts{recover: true, quiet: true})
	if err != nil {
		t.Fatalf("HARNESS-BUG: %v", err)
	}
	key := []byte(cfggen.KeyA)
	var held []*connDriver
	for i := 0; i < stalled; i++ {
		d, err := env.dial(cfggen.AddrIn(cfggen.ScopeA, byte(20+i%200)).IP(), 12000+i)
		if err != nil {
			t.Fatalf("%v", err)
		}
		d.c.BlockWrites(true)
		// one login, one authorization and one accounting record each, all in one write
		login := model.Frame(key, model.Header{Version: 0xc1, Type: 1, Seq: 1, Session: uint32(100 + i)}, model.AuthenStart{Action: 1, Priv: 1, AType: 2, Service: 1, User: b("bob"), Port: b("tty0"), RemAddr: b("r"), Data: b("pw-bravo")}.Encode())
		d.c.Feed(login)
		held = append(held, d)
	}
	// give the stalled connections' handlers time to reach their (blocked) writes
	for _, d := range held {
		for k := 0; k < 500 && d.c.Pending() > 0; k++ {
			time.Sleep(2 * time.Millisecond)
		}
	}
	time.Sleep(300 * time.Millisecond)
	probe, err := env.dial(cfggen.AddrIn(cfggen.ScopeA, 250).IP(), 13000)
	if err != nil {
		t.Fatalf("%v", err)
	}
	probe.c.Feed(model.Frame(key, model.Header{Version: 0xc1, Type: 1, Seq: 1, Session: 9999}, model.AuthenStart{Action: 1, Priv: 1, AType: 2, Service: 1, User: b("alice"), Port: b("tty0"), RemAddr: b("r"), Data: b("pw-alpha")}.Encode()))
	answered := false
	for k := 0; k < 7500; k++ { // up to 15 s; a login at work factor 4 takes a millisecond
		if out, _ := probe.c.Written(); len(out) > 0 {
			answered = true
			break
		}
		time.Sleep(2 * time.Millisecond)
	}
	if !answered {
		if parked := parkedConnectionGoroutines(); parked != "" {
			for _, d := range held {
				d.c.BlockWrites(false)
			}
			_ = env.stop()
			violation(t, "C14", "availability", "C14:server-stopped-serving", cse, "%d clients logged in and do not read their replies; the login of a well-behaved client that came afterwards is not answered, and connection goroutines are parked inside the server, not on anything the harness owns:\n%s", stalled, parked)
		}
		t.Fatalf("HARNESS-BUG/INCONCLUSIVE: the probe login was not answered within 15 s and no connection goroutine is parked inside the server")
	}
	for _, d := range held {
		d.c.BlockWrites(false)
	}
	if e := env.stop(); e != nil {
		t.Fatalf("%v", e)
	}
	ev.Class("clients-that-do-not-read-their-replies")
	ev.NonTrivial("stalled-readers", cse)
}

// parkedConnectionGoroutines lists connection goroutines of the server (Server.handle on their stack) that
// are parked on a channel or lock operation outside the harness' transport and stay there for a second.
func parkedConnectionGoroutines() string {
	sample := func() map[string]string {
		buf := make([]byte, 4<<20)
		buf = buf[:runtime.Stack(buf, true)]
		out := map[string]string{}
		for _, g := range strings.Split(string(buf), "\n\n") {
			nl := strings.IndexByte(g, '\n')
			if nl < 0 || !strings.Contains(g, "tacquito.(*Server).handle") {
				continue
			}
			head := g[:nl]
			if !(strings.Contains(head, "chan send") || strings.Contains(head, "chan receive") || strings.Contains(head, "select") || strings.Contains(head, "semacquire") || strings.Contains(head, "Lock")) {
				continue
			}
			if strings.Contains(g, "harness/transport.(*Conn)") || strings.Contains(g, "harness/transport.(*Listener)") {
				continue // waiting for the harness (a blocked write, a read)
			}
			var fs []string
			for _, ln := range strings.Split(g, "\n") {
				if strings.HasPrefix(ln, "github.com/facebookincubator/tacquito") {
					if i := strings.LastIndex(ln, "("); i > 0 {
						ln = ln[:i]
					}
					fs = append(fs, ln)
					if len(fs) == 3 {
						break
					}
				}
			}
			if id := strings.Fields(head); len(id) >= 2 {
				out[id[1]] = head[strings.Index(head, "["):] + " " + strings.Join(fs, " < ")
			}
		}
		return out
	}
	a := sample()
	if len(a) == 0 {
		return ""
	}
	time.Sleep(time.Second)
	b := sample()
	seen := map[string]int{}
	for id, f := range a {
		if b[id] == f {
			seen[f[strings.Index(f, "]")+1:]]++
		}
	}
	var keep []string
	for f, n := range seen {
		keep = append(keep, fmt.Sprintf(" %d goroutine(s) in%s", n, f))
	}
	sortStrings(keep)
	return strings.Join(keep, "\n")
}

// TestC14EnumAttributeEdges: accounting records (start, stop, update) of a user with an accounter whose
// standard numeric attributes take every edge value of the pool, one attribute at a time and the stop
// record's counters together; and authorization requests carrying the same.  Deterministic.
func TestC14EnumAttributeEdges(t *testing.T) {
	var w cfggen.World
	w.Keychain = map[string]string{}
	w.Cfg.Secrets = []cfggen.Secret{cfggen.NewSecret(cfggen.ScopeA, cfggen.KeyA, cfggen.PrefixA)}
	w.Cfg.Users = []cfggen.User{
		{Name: "alice", Scopes: []string{cfggen.ScopeA}, Authenticator: cfggen.BcryptAuth("pw-alpha"), Accounter: cfggen.FileAccounter(),
			Commands: []cfggen.Command{{Name: "show", Action: cfggen.ActionPermit}}, Services: []cfggen.Service{{Name: "shell", SetValues: []cfggen.Value{{Name: "priv-lvl", Values: []string{"15"}}}}}},
		{Name: ctlUser, Scopes: []string{cfggen.ScopeA, cfggen.ScopeB}, Authenticator: cfggen.BcryptAuth(ctlPassword)},
	}
	key := []byte(cfggen.KeyA)
	numeric := []string{"task_id", "start_time", "stop_time", "elapsed_time", "bytes", "bytes_in", "bytes_out", "paks", "paks_in", "paks_out", "timeout", "idletime", "priv-lvl"}
	sess := uint32(1)
	var conns []c14Conn
	add := func(flags byte, args []model.B) {
		var cc c14Conn
		cc.Scope, cc.EOF = cfggen.ScopeA, true
		sess++
		cc.Chunks = append(cc.Chunks, c14Chunk{Note: "acct-attr-edge", Wire: model.Frame(key, model.Header{Version: 0xc0, Type: 3, Seq: 1, Session: sess},
			model.AcctRequest{Flags: flags, Method: 6, Priv: 1, AType: 1, Service: 1, User: b("alice"), Port: b("tty0"), RemAddr: b("r"), Args: args}.Encode())})
		sess++
		cc.Chunks = append(cc.Chunks, c14Chunk{Note: "author-attr-edge", Wire: model.Frame(key, model.Header{Version: 0xc0, Type: 2, Seq: 1, Session: sess},
			model.AuthorRequest{Method: 6, Priv: 1, AType: 1, Service: 1, User: b("alice"), Port: b("tty0"), RemAddr: b("r"), Args: append([]model.B{b("service=shell"), b("cmd=")}, args...)}.Encode())})
		conns = append(conns, cc)
	}
	for _, v := range rfcAttrValues {
		for _, n := range numeric {
			for _, fl := range []byte{2, 4, 8} {
				add(fl, []model.B{b("task_id=7"), model.B(n + "=" + v)})
			}
		}
		// a stop record with all its counters at this value, and with this elapsed time next to real counters
		add(4, []model.B{b("task_id=7"), model.B("elapsed_time=" + v), model.B("bytes_in=" + v), model.B("bytes_out=" + v), model.B("paks_in=" + v), model.B("paks_out=" + v)})
		add(4, []model.B{b("task_id=7"), model.B("elapsed_time=" + v), b("bytes_in=1500"), b("bytes_out=900"), b("bytes=2400"), b("paks_in=3"), b("paks_out=2")})
	}
	for start := 0; start < len(conns); start += 60 {
		end := start + 60
		if end > len(conns) {
			end = len(conns)
		}
		c := c14Case{World: w, Format: "yaml", Conns: conns[start:end]}
		runC14(t, c)
	}
	ev.Class("standard-attributes-at-every-edge-value")
}
