// Package ev collects what a run actually covered: evaluations, per-class counters, distinct
// non-trivial cases (by hash of the case JSON) and a few samples per class.  The counters are dumped
// as JSON to $VERIF_EV_OUT by TestMain; the driver merges shards into evidence/<id>.json.
package ev

import (
	"crypto/sha1"
	"encoding/hex"
	"encoding/json"
	"os"
	"sort"
	"sync"
)

type Dump struct {
	Evaluations int                          `json:"evaluations"`
	Classes     map[string]int               `json:"classes"`
	NonTrivial  []string                     `json:"nontrivial_hashes"` // distinct hashes (driver unions them across shards)
	Samples     map[string][]json.RawMessage `json:"samples"`
	Excluded    map[string]int               `json:"excluded_known"`
	Notes       []string                     `json:"notes,omitempty"`
}

var (
	mu      sync.Mutex
	evals   int
	classes = map[string]int{}
	nt      = map[string]struct{}{}
	samples = map[string][]json.RawMessage{}
	excl    = map[string]int{}
	notes   []string
	// MaxSamplesPerClass bounds what is kept.
	MaxSamplesPerClass = 3
	maxSampleBytes     = 4096
)

// Eval counts one executed case.
func Eval() { mu.Lock(); evals++; mu.Unlock() }

// Class counts a classification label.
func Class(name string) { mu.Lock(); classes[name]++; mu.Unlock() }

// Excluded counts a case that was steered away from a known finding.
func Excluded(sig string) { mu.Lock(); excl[sig]++; mu.Unlock() }

func Note(s string) { mu.Lock(); notes = append(notes, s); mu.Unlock() }

func hash(v interface{}) (string, []byte) {
	b, err := json.Marshal(v)
	if err != nil {
		b = []byte(err.Error())
	}
	h := sha1.Sum(b)
	return hex.EncodeToString(h[:8]), b
}

// NonTrivial records a case that is non-trivial by the property's rule; distinctness is by hash of
// its JSON form.  The first few of each class are kept as samples.
func NonTrivial(class string, c interface{}) {
	h, b := hash(c)
	mu.Lock()
	defer mu.Unlock()
	if _, seen := nt[h]; seen {
		return
	}
	nt[h] = struct{}{}
	if len(samples[class]) < MaxSamplesPerClass && len(b) <= maxSampleBytes {
		samples[class] = append(samples[class], json.RawMessage(b))
	}
}

// Sample keeps a sample without counting it as non-trivial (e.g. to show a trivial case).
func Sample(class string, c interface{}) {
	_, b := hash(c)
	mu.Lock()
	defer mu.Unlock()
	if len(samples[class]) < MaxSamplesPerClass && len(b) <= maxSampleBytes {
		samples[class] = append(samples[class], json.RawMessage(b))
	}
}

// Write dumps the counters to $VERIF_EV_OUT (no-op when unset).
func Write() {
	path := os.Getenv("VERIF_EV_OUT")
	if path == "" {
		return
	}
	mu.Lock()
	defer mu.Unlock()
	d := Dump{Evaluations: evals, Classes: classes, Samples: samples, Excluded: excl, Notes: notes}
	for h := range nt {
		d.NonTrivial = append(d.NonTrivial, h)
	}
	sort.Strings(d.NonTrivial)
	b, _ := json.MarshalIndent(d, "", " ")
	_ = os.WriteFile(path, b, 0o644)
}
