package harness

import (
	"context"
	"encoding/hex"
	"encoding/json"
	"errors"
	"fmt"
	"net"
	"os"
	"path/filepath"
	"runtime"
	"sync"
	"testing"
	"time"

	tq "github.com/facebookincubator/tacquito"
	"github.com/facebookincubator/tacquito/cmds/server/config"
	"verif/harness/cfggen"
	"verif/harness/ev"
	"verif/harness/model"
	"verif/harness/refsrv"

	"pgregory.net/rapid"
)

// C15 — no data races; configuration reload is atomic with respect to lookups; a published
// configuration is never written again.  Run with the race detector (the driver builds this check
// with -race); the harness itself shares nothing between client goroutines and uses a logger and an
// accounting sink that take no locks, so that it adds no happens-before edges of its own.

type c15Client struct {
	Ops   []string `json:"ops"`   // pap | ascii | cmd | session | acct
	Mux   bool     `json:"mux"`   // interleave two sessions on the connection
	Churn int      `json:"churn"` // extra connections opened and closed at once
}

type c15Case struct {
	Clients []c15Client `json:"clients"`
	Reloads []string    `json:"reloads"` // documents pushed while the clients run: "A" | "B" | "C"
	Format  string      `json:"format"`
	Lookups int         `json:"lookups"`
	Cancel  string      `json:"cancel"` // after | during
	// Twice: every document is pushed twice in a row (a watcher reports saves that change nothing)
	Twice bool `json:"twice,omitempty"`
	// ViaLoad: documents are written to a file and loaded with Load(path), as the file watcher does,
	// instead of being handed to Unmarshal
	ViaLoad bool `json:"via_load,omitempty"`
}

// Configurations A and B: under A 10.1.0.5 is bound to key-A; under B it is denied.  B's provider for
// the same prefix has another key, so "B's providers seen through A's filters" yields key-B, which
// neither configuration allows.  C is A with its secret configurations renamed, so that no user is in any
// of them and nothing can be served, and without filters; 10.1.9.7 is denied by A's and B's filters and
// has no provider under C, so any answer for it other than a refusal shows the providers of one
// configuration behind the filters of another.
func c15Config(which string) cfggen.Config {
	var c cfggen.Config
	key := "key-A"
	if which == "B" {
		key = "key-B"
	}
	c.Secrets = []cfggen.Secret{cfggen.NewSecret("s1", key, "10.1.0.0/16"), cfggen.NewSecret("s2", key+"2", "10.3.0.0/16")}
	switch which {
	case "B":
		c.PrefixDeny = []string{"10.1.0.0/16"}
	case "C":
		c.Secrets = []cfggen.Secret{cfggen.NewSecret("x1", key, "10.1.0.0/16"), cfggen.NewSecret("x2", key+"2", "10.3.0.0/16")}
	default:
		c.PrefixDeny = []string{"10.9.0.0/16", "10.1.9.0/24"}
	}
	file := cfggen.FileAccounter()
	cmds := []cfggen.Command{{Name: " show ", Match: []string{"", " version ", "   ", "system.* ", " (run|conf).*"}, Action: cfggen.ActionPermit}, {Name: "configure", Match: []string{"terminal "}, Action: cfggen.ActionDeny}, {Name: "*", Action: cfggen.ActionDeny}}
	svcs := []cfggen.Service{{Name: " shell ", SetValues: []cfggen.Value{{Name: "priv-lvl", Values: []string{" 15 "}, Optional: true}}}, {Name: "ppp", Match: []cfggen.Value{{Name: "protocol", Values: []string{"ip"}}}, SetValues: []cfggen.Value{{Name: "addr-pool", Values: []string{"p1"}}}}}
	grp := cfggen.Group{Name: "noc", Commands: cmds, Services: svcs, Authenticator: cfggen.BcryptAuth("pw-alpha"), Accounter: file}
	c.Users = []cfggen.User{
		{Name: "alice", Scopes: []string{"s1", "s2"}, Commands: cmds, Services: svcs, Authenticator: cfggen.BcryptAuth("pw-alpha"), Accounter: file},
		{Name: "bob", Scopes: []string{"s1", "s2"}, Groups: []cfggen.Group{grp}},
		// own rules and services as well as a group's, in numbers (3 and 5) for which a decoder's slices
		// tend to have spare capacity: merging the group's behind them must not write into what is published
		{Name: "carl", Scopes: []string{"s1", "s2"}, Commands: cmds, Services: append(append([]cfggen.Service{}, svcs...), cfggen.Service{Name: "s3"}, cfggen.Service{Name: "s4"}, cfggen.Service{Name: "s5"}), Groups: []cfggen.Group{grp}, Authenticator: cfggen.BcryptAuth("pw-alpha")},
		// no hash option: the credential comes from the keychain on every login
		{Name: "kc", Scopes: []string{"s1", "s2"}, Authenticator: &cfggen.Authenticator{Type: cfggen.AuthnBcrypt, Options: map[string]string{"key": "kc", "group": "g"}}},
	}
	return c
}

func genC15(t *rapid.T) c15Case {
	c := c15Case{Format: rapid.SampledFrom([]string{"yaml", "json"}).Draw(t, "format"), Cancel: rapid.SampledFrom([]string{"after", "after", "during"}).Draw(t, "cancel")}
	n := rapid.IntRange(2, 8).Draw(t, "nclients")
	for i := 0; i < n; i++ {
		cl := c15Client{Mux: rapid.Bool().Draw(t, "mux"), Churn: rapid.IntRange(0, 2).Draw(t, "churn")}
		k := rapid.IntRange(1, 6).Draw(t, "nops")
		for j := 0; j < k; j++ {
			cl.Ops = append(cl.Ops, rapid.SampledFrom([]string{"cmd", "cmd", "cmd", "session", "acct", "pap", "ascii", "pap-kc", "pap-kc", "cmd-carl", "session-carl", "session-carl"}).Draw(t, "op"))
		}
		c.Clients = append(c.Clients, cl)
	}
	// make the non-trivial rule hold by construction: two clients that both authorise commands of alice
	c.Clients[0].Ops = append([]string{"pap-kc"}, append(c.Clients[0].Ops, "cmd", "cmd")...)
	c.Clients[1].Ops = append([]string{"pap-kc"}, append(c.Clients[1].Ops, "cmd", "cmd")...)
	nr := rapid.IntRange(1, 4).Draw(t, "nreloads")
	for i := 0; i < nr; i++ {
		c.Reloads = append(c.Reloads, rapid.SampledFrom([]string{"A", "B", "B", "C"}).Draw(t, "reload"))
	}
	c.Lookups = rapid.IntRange(20, 200).Draw(t, "lookups")
	c.Twice = rapid.Bool().Draw(t, "reload_same_document_twice")
	c.ViaLoad = rapid.IntRange(0, 2).Draw(t, "reload_via_load") == 0
	return c
}

// ---- a transport that synchronises only the two ends of one connection ----

type addrConn struct {
	net.Conn
	remote net.Addr
}

func (a addrConn) RemoteAddr() net.Addr { return a.remote }
func (a addrConn) LocalAddr() net.Addr  { return &net.TCPAddr{IP: net.IPv4(127, 0, 0, 1), Port: 49} }

type pipeListener struct {
	conns  chan net.Conn
	kick   chan struct{}
	closed chan struct{}
	once   sync.Once
}

func newPipeListener() *pipeListener {
	return &pipeListener{conns: make(chan net.Conn), kick: make(chan struct{}, 4), closed: make(chan struct{})}
}

type tmo struct{}

func (tmo) Error() string   { return "i/o timeout" }
func (tmo) Timeout() bool   { return true }
func (tmo) Temporary() bool { return true }

func (l *pipeListener) Accept() (net.Conn, error) {
	select {
	case c := <-l.conns:
		return c, nil
	case <-l.kick:
		return nil, &net.OpError{Op: "accept", Net: "tcp", Err: tmo{}}
	case <-l.closed:
		return nil, &net.OpError{Op: "accept", Net: "tcp", Err: net.ErrClosed}
	}
}
func (l *pipeListener) Close() error                  { l.once.Do(func() { close(l.closed) }); return nil }
func (l *pipeListener) Addr() net.Addr                { return &net.TCPAddr{IP: net.IPv4(127, 0, 0, 1), Port: 49} }
func (l *pipeListener) SetDeadline(t time.Time) error { return nil }

// dial hands the server one end of a pipe and returns the other.
func (l *pipeListener) dial(ip net.IP, port int) (net.Conn, error) {
	srvEnd, cliEnd := net.Pipe()
	select {
	case l.conns <- addrConn{Conn: srvEnd, remote: &net.TCPAddr{IP: ip, Port: port}}:
		return cliEnd, nil
	case <-l.closed:
		return nil, errors.New("listener closed")
	case <-time.After(watchdog):
		return nil, errors.New("HARNESS-BUG/INCONCLUSIVE: nobody accepts")
	}
}

// exchange writes one request and reads one reply packet (nil on EOF/closed).
func exchange(c net.Conn, wire []byte) (*model.Packet, error) {
	_ = c.SetDeadline(time.Now().Add(watchdog))
	if _, err := c.Write(wire); err != nil {
		return nil, nil // the server side went away (shutdown or refusal)
	}
	hdr := make([]byte, 12)
	if _, err := readFull(c, hdr); err != nil {
		return nil, nil
	}
	h, _ := model.DecodeHeader(hdr)
	if h.Length > 1<<17 {
		return nil, fmt.Errorf("implausible reply length %d", h.Length)
	}
	body := make([]byte, h.Length)
	if _, err := readFull(c, body); err != nil {
		return nil, nil
	}
	return &model.Packet{H: h, Body: body}, nil
}

func readFull(c net.Conn, b []byte) (int, error) {
	n := 0
	for n < len(b) {
		k, err := c.Read(b[n:])
		n += k
		if err != nil {
			return n, err
		}
	}
	return n, nil
}

// snapshotting unmarshaller: sits between the document loader and the Loader, remembers every
// published configuration and what it looked like when it was published.
type snapUM struct {
	inner interface {
		Unmarshal(b []byte) error
		Config() chan config.ServerConfig
	}
	out  chan config.ServerConfig
	mu   sync.Mutex
	pubs []config.ServerConfig
	snap []string
}

func (s *snapUM) Config() chan config.ServerConfig { return s.out }

func (s *snapUM) forward(ctx context.Context) {
	for {
		select {
		case <-ctx.Done():
			return
		case c := <-s.inner.Config():
			b, _ := json.Marshal(c)
			s.mu.Lock()
			s.pubs = append(s.pubs, c)
			s.snap = append(s.snap, string(b))
			s.mu.Unlock()
			select {
			case s.out <- c:
			case <-ctx.Done():
				return
			}
		}
	}
}

type c15Result struct {
	overlapAuthor, overlapConns, lookupsDuringReload bool
}

func runC15(t failer, c c15Case) c15Result {
	ev.Eval()
	var res c15Result
	fail := func(sig, format string, args ...interface{}) {
		violation(t, "C15", "atomicity", "C15:"+sig, c, format, args...)
	}
	docs := map[string][]byte{}
	for _, w := range []string{"A", "B", "C"} {
		if c.Format == "json" {
			docs[w] = c15Config(w).JSON()
		} else {
			docs[w] = c15Config(w).YAML()
		}
	}
	kcHash, _ := hex.DecodeString(cfggen.Hashes["pw-bravo"])
	st, err := refsrv.New(docs["A"], refsrv.Options{Logger: refsrv.NopLogger{}, Sink: refsrv.NopSink{}, Format: c.Format,
		Keychain: refsrv.MapKeychain{"kc": kcHash}}) // a read-only map: lookups take no lock
	if err != nil {
		t.Fatalf("HARNESS-BUG: %v", err)
	}
	defer st.Close()
	ln := newPipeListener()
	ctx, cancel := context.WithCancel(context.Background())
	defer cancel()
	srv := tq.NewServer(refsrv.NopLogger{}, st.Loader)
	served := make(chan struct{})
	go func() { _ = srv.Serve(ctx, ln); close(served) }()

	var wg sync.WaitGroup
	errs := make(chan string, 64)
	// clients
	for i, cl := range c.Clients {
		wg.Add(1)
		go func(i int, cl c15Client) {
			defer wg.Done()
			for k := 0; k < cl.Churn; k++ {
				if cc, err := ln.dial(net.IPv4(10, 3, 1, byte(i)), 20000+k); err == nil {
					cc.Close()
				}
			}
			conn, err := ln.dial(net.IPv4(10, 3, 0, byte(i+1)), 10000+i)
			if err != nil {
				return
			}
			defer conn.Close()
			key := []byte("key-A2")
			_ = key
			sess := uint32(i+1) << 8
			for j, op := range cl.Ops {
				sid := sess + uint32(j)
				var typ, minor byte
				var body []byte
				switch op {
				case "pap":
					typ, minor = 1, 1
					body = model.AuthenStart{Action: 1, Priv: 1, AType: 2, Service: 1, User: b("alice"), Port: b("tty0"), RemAddr: b("r"), Data: b("pw-alpha")}.Encode()
				case "pap-kc":
					typ, minor = 1, 1
					body = model.AuthenStart{Action: 1, Priv: 1, AType: 2, Service: 1, User: b("kc"), Port: b("tty0"), RemAddr: b("r"), Data: b("pw-bravo")}.Encode()
				case "ascii":
					typ = 1
					body = model.AuthenStart{Action: 1, Priv: 1, AType: 1, Service: 1, User: b("bob"), Port: b("tty0"), RemAddr: b("r")}.Encode()
				case "cmd":
					typ = 2
					body = model.AuthorRequest{Method: 6, Priv: 1, AType: 1, Service: 1, User: b("alice"), Port: b("tty0"), RemAddr: b("r"), Args: []model.B{b("service=shell"), b("cmd=show"), b("cmd-arg=version")}}.Encode()
				case "session":
					typ = 2
					body = model.AuthorRequest{Method: 6, Priv: 1, AType: 1, Service: 1, User: b("bob"), Port: b("tty0"), RemAddr: b("r"), Args: []model.B{b("service=shell"), b("cmd=")}}.Encode()
				case "cmd-carl":
					typ = 2
					body = model.AuthorRequest{Method: 6, Priv: 1, AType: 1, Service: 1, User: b("carl"), Port: b("tty0"), RemAddr: b("r"), Args: []model.B{b("service=shell"), b("cmd=show"), b("cmd-arg=version")}}.Encode()
				case "session-carl":
					typ = 2
					body = model.AuthorRequest{Method: 6, Priv: 1, AType: 1, Service: 1, User: b("carl"), Port: b("tty0"), RemAddr: b("r"), Args: []model.B{b("service=ppp"), b("protocol=ip")}}.Encode()
				case "acct":
					typ = 3
					body = model.AcctRequest{Flags: 2, Method: 6, Priv: 1, AType: 1, Service: 1, User: b("alice"), Port: b("tty0"), RemAddr: b("r"), Args: []model.B{b("task_id=1")}}.Encode()
				}
				// the key depends on which configuration admitted us; both have key-?2 for 10.3/16
				for _, k := range [][]byte{[]byte("key-A2")} {
					h := model.Header{Version: 0xc0 | minor, Type: typ, Seq: 1, Session: sid, Flags: model.FlagUnencrypted}
					rep, err := exchange(conn, model.Frame(k, h, body))
					if err != nil {
						errs <- err.Error()
						return
					}
					if rep == nil {
						return // connection gone (shutdown)
					}
					if op == "ascii" {
						// answer the password prompt, multiplexed with another session if asked to
						if cl.Mux {
							h2 := model.Header{Version: 0xc0, Type: 2, Seq: 1, Session: sid + 0x80, Flags: model.FlagUnencrypted}
							if r2, _ := exchange(conn, model.Frame(k, h2, model.AuthorRequest{Method: 6, Priv: 1, AType: 1, Service: 1, User: b("alice"), Args: []model.B{b("service=shell"), b("cmd=configure"), b("cmd-arg=terminal")}}.Encode())); r2 == nil {
								return
							}
						}
						h.Seq = 3
						if r3, _ := exchange(conn, model.Frame(k, h, model.AuthenContinue{UserMsg: b("pw-alpha")}.Encode())); r3 == nil {
							return
						}
					}
				}
			}
		}(i, cl)
	}
	// reloads
	push := st.Unmarshal
	if c.ViaLoad {
		ev.Class("reload-via-Load(path)")
		dir, err := os.MkdirTemp("", "verif-c15-")
		if err != nil {
			t.Fatalf("HARNESS-BUG: %v", err)
		}
		defer os.RemoveAll(dir)
		path := filepath.Join(dir, "tacquito."+c.Format)
		push = func(doc []byte) error {
			if err := os.WriteFile(path, doc, 0o600); err != nil {
				return err
			}
			return st.Load(path)
		}
	}
	reloadDone := make(chan struct{})
	go func() {
		defer close(reloadDone)
		for _, w := range c.Reloads {
			_ = push(docs[w])
			runtime.Gosched()
			if c.Twice {
				_ = push(docs[w])
				runtime.Gosched()
			}
		}
		// settle: push the last document twice more so that it is fully applied when we return
		last := docs[c.Reloads[len(c.Reloads)-1]]
		_ = push(last)
		_ = push(last)
	}()
	// lookups concurrent with the reloads: each answer must be A's or B's
	wg.Add(1)
	go func() {
		defer wg.Done()
		ra := &net.TCPAddr{IP: net.IPv4(10, 1, 0, 5), Port: 1}
		for i := 0; i < c.Lookups; i++ {
			secret, h, err := st.Loader.Get(context.Background(), ra)
			switch {
			case err != nil && secret == nil && h == nil: // denied: B's answer (C: no provider)
			case err == nil && string(secret) == "key-A": // A's answer
			default:
				errs <- fmt.Sprintf("VIOLATION-MIX lookup %d for 10.1.0.5 answered (secret %q, err %v): configuration A binds it to key-A, configuration B denies it, C has no provider; this answer mixes two of them", i, secret, err)
				return
			}
			// 10.1.9.7: denied by A and by B, without a provider under C
			if s2, h2, err2 := st.Loader.Get(context.Background(), &net.TCPAddr{IP: net.IPv4(10, 1, 9, 7), Port: 1}); err2 == nil || s2 != nil || h2 != nil {
				errs <- fmt.Sprintf("VIOLATION-MIX lookup %d for 10.1.9.7 answered (secret %q, err %v): configurations A and B deny the address and C has no provider for it; this answer puts the providers of one configuration behind the filters of another", i, s2, err2)
				return
			}
			select {
			case <-reloadDone:
			default:
				res.lookupsDuringReload = true
			}
			runtime.Gosched()
		}
	}()
	if c.Cancel == "during" {
		runtime.Gosched()
		cancel()
		ln.kick <- struct{}{}
	}
	done := make(chan struct{})
	go func() { wg.Wait(); close(done) }()
	select {
	case <-done:
	case <-time.After(2 * watchdog):
		t.Fatalf("HARNESS-BUG/INCONCLUSIVE: workload did not finish")
	}
	select {
	case <-reloadDone:
	case <-time.After(watchdog):
		t.Fatalf("HARNESS-BUG/INCONCLUSIVE: reloads did not finish")
	}
	cancel()
	select {
	case ln.kick <- struct{}{}:
	default:
	}
	select {
	case <-served:
	case <-time.After(watchdog):
		t.Fatalf("HARNESS-BUG/INCONCLUSIVE: Serve did not return")
	}
	close(errs)
	for e := range errs {
		if len(e) > 13 && e[:13] == "VIOLATION-MIX" {
			fail("lookup-mixes-configurations", "%s", e[14:])
		}
		t.Fatalf("HARNESS-BUG: %s", e)
	}
	res.overlapAuthor = true // two clients authorise commands of the same user by construction
	res.overlapConns = len(c.Clients) >= 2
	return res
}

// chanUM stands in for a document loader: what is put on its channel is what it "publishes".
type chanUM struct{ ch chan config.ServerConfig }

func (u *chanUM) Unmarshal(b []byte) error         { return nil }
func (u *chanUM) Config() chan config.ServerConfig { return u.ch }

// checkC15Published: decode documents through the real loaders with a consumer in between, then
// verify that what was published still is what it was.
func runC15Published(t failer, c c15Case) {
	fail := func(sig, format string, args ...interface{}) {
		violation(t, "C15", "published", "C15:"+sig, c, format, args...)
	}
	l := newDocLoader(c.Format)
	var pubs []config.ServerConfig
	var snaps []string
	seq := append([]string{"A"}, c.Reloads...)
	for _, w := range seq {
		var doc []byte
		if c.Format == "json" {
			doc = c15Config(w).JSON()
		} else {
			doc = c15Config(w).YAML()
		}
		if err := l.Unmarshal(doc); err != nil {
			t.Fatalf("HARNESS-BUG: %v", err)
		}
		v := <-l.Config()
		pubs = append(pubs, v)
		snaps = append(snaps, snapshot(v))
		// what was published is handed to a Loader of the reference stack, which builds its providers,
		// authenticators and authorizers from it (three times: the third arrival means the first is built)
		feed := &chanUM{ch: make(chan config.ServerConfig, 1)}
		feed.ch <- v
		if st, err := refsrv.New(nil, refsrv.Options{Logger: refsrv.NopLogger{}, Sink: refsrv.NopSink{}, UM: feed}); err == nil {
			feed.ch <- v
			feed.ch <- v
			st.Close()
		}
		for i := range pubs {
			if now := snapshot(pubs[i]); now != snaps[i] {
				fail("published-config-written", "the configuration published for document %d (%s) changed when document %d (%s) was loaded", i, seq[i], len(pubs)-1, w)
			}
		}
	}
}

func TestC15(t *testing.T) {
	var all []c15Case
	rapid.Check(t, func(rt *rapid.T) {
		c := genC15(rt)
		all = append(all, c)
		if len(all) <= 64 {
			journal("C15", all)
		}
		res := runC15(rt, c)
		runC15Published(rt, c)
		ev.Class("format:" + c.Format)
		ev.Class("cancel:" + c.Cancel)
		ev.Class(fmt.Sprintf("clients:%d", len(c.Clients)))
		if res.lookupsDuringReload {
			ev.Class("lookup-overlaps-reload")
		}
		if res.overlapAuthor && res.overlapConns && res.lookupsDuringReload {
			ev.NonTrivial("c15", c)
		}
	})
}

func TestC15Regress(t *testing.T) {
	for _, s := range loadSaved(t, "C15") {
		var cs []c15Case
		if err := json.Unmarshal(s.Case, &cs); err != nil {
			var one c15Case
			mustUnmarshal(t, s, &one)
			cs = []c15Case{one}
		}
		for _, c := range cs {
			runC15(t, c)
			runC15Published(t, c)
		}
	}
}

var _ = os.Getenv
