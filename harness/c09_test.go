package harness

import (
	"encoding/json"
	"fmt"
	"os"
	"reflect"
	"sync"
	"testing"
	"time"

	"verif/harness/cfggen"
	"verif/harness/ev"
	"verif/harness/model"
	"verif/harness/refsrv"

	"pgregory.net/rapid"
)

// C09 — multiplexed or concurrent sessions never influence one another (metamorphic: each session's
// transcript equals the transcript it gets when it is the only session a fresh server ever sees).

type c09Pkt struct {
	Minor byte    `json:"minor"`
	Body  model.B `json:"body"`
}

type c09Script struct {
	Kind    string   `json:"kind"`
	Type    byte     `json:"type"`
	Session uint32   `json:"session"`
	Pkts    []c09Pkt `json:"pkts"`
	// Seq0: the sequence number of the script's first packet (0 = 1); a script that reaches 255 gets no
	// reply to that packet - and that is all that happens
	Seq0 int `json:"seq0,omitempty"`
}

type c09Case struct {
	World   cfggen.World `json:"world"`
	Mode    string       `json:"mode"` // mux: one connection, interleaved; conns: concurrent connections
	Scripts []c09Script  `json:"scripts"`
	Order   []int        `json:"order"`  // mux: whose turn
	Assign  []int        `json:"assign"` // conns: connection of each script
	// Coalesce (mux): Coalesce[k] says that the packets of turns k and k+1, if they belong to different
	// sessions, reach the server in one read (two clients' packets coalesced by a single-connect proxy)
	Coalesce []bool `json:"coalesce,omitempty"`
	// Pause (mux): Pause[k] milliseconds of real time pass before turn k (the scripted connection has no
	// clock; only the server's own idea of time can make this matter).  The session alone is not paused.
	Pause []int `json:"pause,omitempty"`
	// CacheAlone (the scale test): scripts that differ in nothing but their session id are run alone once;
	// the others' expected transcripts are that one's with their own session id in the reply headers
	CacheAlone bool `json:"cache_alone,omitempty"`
}

// c09Reply is what a session observes for one request.
type c09Reply struct {
	N      int    `json:"n"` // packets received
	Header string `json:"header"`
	Body   string `json:"body"` // cleartext, hex
	Closed bool   `json:"closed"`
}

// c09Focus returns the scope-A user with the most services (own and through groups), "" if none has two.
func c09Focus(w cfggen.World) string {
	best, bestN := "", 1
	var names []string
	users := w.Cfg.ScopeUsers(cfggen.ScopeA)
	for n := range users {
		names = append(names, n)
	}
	sortStrings(names)
	for _, n := range names {
		k := len(users[n].User.Services)
		for _, g := range users[n].User.Groups {
			k += len(g.Services)
		}
		if k > bestN {
			best, bestN = n, k
		}
	}
	return best
}

func genC09Script(t *rapid.T, w cfggen.World, session uint32) c09Script {
	switch rapid.IntRange(0, 6).Draw(t, "script_kind") {
	case 0, 6: // command / session authorization
		var names []string
		for n := range w.Cfg.ScopeUsers(cfggen.ScopeA) {
			names = append(names, n)
		}
		sortStrings(names)
		args := [][]string{{"service=shell", "cmd=show", "cmd-arg=version"}, {"service=shell", "cmd="}, {"service=ppp", "protocol=ip"}, {"service=shell", "cmd=configure", "cmd-arg=terminal"}}[rapid.IntRange(0, 3).Draw(t, "author_args")]
		var margs []model.B
		for _, a := range args {
			margs = append(margs, model.B(a))
		}
		user := rapid.SampledFrom(append(names, "mallory")).Draw(t, "author_user")
		if f := c09Focus(w); f != "" && rapid.Bool().Draw(t, "author_focus_user") {
			user = f // several sessions of the one user who has several services
		}
		// half of the time the request names one of the services configured for that user (own or through a
		// group), as a session authorization, so that two sessions of one user ask for different services
		if eu, ok := w.Cfg.ScopeUsers(cfggen.ScopeA)[user]; ok && rapid.Bool().Draw(t, "author_own_service") {
			svcs := append([]cfggen.Service{}, eu.User.Services...)
			for _, g := range eu.User.Groups {
				svcs = append(svcs, g.Services...)
			}
			if len(svcs) > 0 {
				sv := svcs[rapid.IntRange(0, len(svcs)-1).Draw(t, "author_service")]
				margs = []model.B{model.B("service=" + sv.Name)}
				if rapid.Bool().Draw(t, "author_empty_cmd") {
					margs = append(margs, b("cmd="))
				}
				for _, mv := range sv.Match {
					if len(mv.Values) > 0 {
						margs = append(margs, model.B(mv.Name+"="+mv.Values[0]))
					}
				}
				for _, v := range sv.SetValues {
					if rapid.Bool().Draw(t, "author_names_value") {
						margs = append(margs, model.B(v.Name+"*"))
					}
				}
			}
		}
		body := model.AuthorRequest{Method: 6, Priv: 1, AType: 1, Service: 1, User: model.B(user), Port: b("tty0"), RemAddr: b("r"), Args: margs}.Encode()
		return c09Script{Kind: "author", Type: 2, Session: session, Pkts: []c09Pkt{{Body: body}}}
	case 1: // accounting
		var names []string
		for n := range w.Cfg.ScopeUsers(cfggen.ScopeA) {
			names = append(names, n)
		}
		sortStrings(names)
		body := model.AcctRequest{Flags: rapid.SampledFrom([]byte{2, 4, 8}).Draw(t, "acct_flags"), Method: 6, Priv: 1, AType: 1, Service: 1,
			User: model.B(rapid.SampledFrom(names).Draw(t, "acct_user")), Port: b("tty0"), RemAddr: b("r"), Args: []model.B{b("task_id=7")}}.Encode()
		sc := c09Script{Kind: "acct", Type: 3, Session: session, Pkts: []c09Pkt{{Body: body}}}
		// a task may go on under the same session id: watchdog updates, then stop
		more := rapid.IntRange(0, 2).Draw(t, "acct_more")
		for k := 0; k < more; k++ {
			fl := byte(0x0a)
			if k == more-1 && rapid.Bool().Draw(t, "acct_stop") {
				fl = 4
			}
			sc.Pkts = append(sc.Pkts, c09Pkt{Body: model.AcctRequest{Flags: fl, Method: 6, Priv: 1, AType: 1, Service: 1,
				User: model.B(rapid.SampledFrom(names).Draw(t, "acct_user_more")), Port: b("tty0"), RemAddr: b("r"), Args: []model.B{b("task_id=7"), b("elapsed_time=3")}}.Encode()})
		}
		if more > 0 {
			sc.Kind = "acct-multi"
		}
		return sc
	}
	as := genAuthScript(t, w, cfggen.ScopeA, session)
	sc := c09Script{Kind: "authen:" + as.Flavour, Type: 1, Session: session}
	for _, p := range as.Pkts {
		sc.Pkts = append(sc.Pkts, c09Pkt{Minor: p.Minor, Body: p.body()})
	}
	return sc
}

func genC09(t *rapid.T) c09Case {
	c := c09Case{World: cfggen.GenWorld(t), Mode: rapid.SampledFrom([]string{"mux", "mux", "conns"}).Draw(t, "mode")}
	drawExtraKeys(t, &c.World.Cfg)
	n := rapid.IntRange(2, 5).Draw(t, "nscripts")
	idPool := []uint32{0x101, 0x201, 0x10000101, 0x5, 0x6, 0xffffff01}
	nconn := 1
	if c.Mode == "conns" {
		nconn = rapid.IntRange(2, 4).Draw(t, "nconns")
	}
	used := map[[2]uint32]bool{}
	for i := 0; i < n; i++ {
		conn := 0
		if c.Mode == "conns" {
			conn = rapid.IntRange(0, nconn-1).Draw(t, "conn")
		}
		var id uint32
		for k := 0; ; k++ {
			id = rapid.SampledFrom(idPool).Draw(t, "session_id")
			if !used[[2]uint32{uint32(conn), id}] || k > 20 {
				break
			}
		}
		if used[[2]uint32{uint32(conn), id}] {
			id = uint32(0x7000 + i)
		}
		used[[2]uint32{uint32(conn), id}] = true
		sc := genC09Script(t, c.World, id)
		if rapid.IntRange(0, 5).Draw(t, "high_seq") == 0 {
			// so that its last or last-but-one packet is numbered 255
			sc.Seq0 = 255 - 2*rapid.IntRange(0, len(sc.Pkts)).Draw(t, "seq_back")
			if sc.Seq0 < 1 {
				sc.Seq0 = 1
			}
		}
		c.Scripts = append(c.Scripts, sc)
		c.Assign = append(c.Assign, conn)
	}
	total := 0
	left := make([]int, n)
	for i, s := range c.Scripts {
		left[i] = len(s.Pkts)
		total += len(s.Pkts)
	}
	for len(c.Order) < total {
		i := rapid.IntRange(0, n-1).Draw(t, "turn")
		for left[i] == 0 {
			i = (i + 1) % n
		}
		left[i]--
		c.Order = append(c.Order, i)
	}
	// one case in four (one connection): a further session takes the id of a session that is over - a
	// one-packet exchange that has been answered - while the others are still going on
	if c.Mode == "mux" && rapid.IntRange(0, 3).Draw(t, "id_taken_again") == 0 {
		var done []int
		for i, sc := range c.Scripts {
			if len(sc.Pkts) == 1 && sc.Seq0 <= 1 && (sc.Kind == "author" || sc.Kind == "acct" || sc.Kind == "authen:pap" || sc.Kind == "authen:pap-wrong") {
				done = append(done, i)
			}
		}
		if len(done) > 0 {
			i := rapid.SampledFrom(done).Draw(t, "id_of")
			late := genC09Script(t, c.World, c.Scripts[i].Session)
			c.Scripts = append(c.Scripts, late)
			c.Assign = append(c.Assign, 0)
			after := 0
			for k, x := range c.Order {
				if x == i {
					after = k + 1
				}
			}
			for range late.Pkts {
				pos := rapid.IntRange(after, len(c.Order)).Draw(t, "late_turn")
				c.Order = append(c.Order[:pos], append([]int{len(c.Scripts) - 1}, c.Order[pos:]...)...)
				// later packets of the late script come after its earlier ones
				after = pos + 1
			}
		}
	}
	if c.Mode == "mux" && rapid.Bool().Draw(t, "coalescing") {
		for range c.Order {
			c.Coalesce = append(c.Coalesce, rapid.IntRange(0, 2).Draw(t, "coalesce") == 0)
		}
	}
	return c
}

// c09Session drives one script on a connection.
type c09Session struct {
	sc   c09Script
	next int
	seq  int
}

func newC09Session(sc c09Script) *c09Session {
	s := &c09Session{sc: sc, seq: 1}
	if sc.Seq0 > 1 {
		s.seq = sc.Seq0
	}
	return s
}

// wire builds the session's next packet without sending it.
func (s *c09Session) wire(key []byte) ([]byte, bool) {
	if s.next >= len(s.sc.Pkts) || s.seq > 255 {
		return nil, false
	}
	p := s.sc.Pkts[s.next]
	h := model.Header{Version: 0xc0 | p.Minor, Type: s.sc.Type, Seq: byte(s.seq), Session: s.sc.Session}
	return model.Frame(key, h, p.Body), true
}

// replyOf picks the packets answering this session out of what came back for two coalesced requests.
func (s *c09Session) replyOf(pkts []model.Packet, rest []byte, closed bool, key []byte) c09Reply {
	r := c09Reply{Closed: closed}
	for _, p := range pkts {
		if p.H.Session != s.sc.Session {
			continue
		}
		if r.N == 0 {
			r.Header = fmt.Sprintf("%x", model.EncodeHeader(p.H))
			r.Body = fmt.Sprintf("%x", p.Clear(key))
		}
		r.N++
	}
	if len(rest) != 0 {
		r.N = -1
	}
	s.next++
	s.seq += 2
	return r
}

func (s *c09Session) step(d *connDriver, key []byte) (c09Reply, bool, error) {
	if s.next >= len(s.sc.Pkts) || s.seq > 255 {
		return c09Reply{}, false, nil
	}
	p := s.sc.Pkts[s.next]
	h := model.Header{Version: 0xc0 | p.Minor, Type: s.sc.Type, Seq: byte(s.seq), Session: s.sc.Session}
	pkts, rest, closed, err := d.send(model.Frame(key, h, p.Body))
	if err != nil {
		return c09Reply{}, false, err
	}
	r := c09Reply{N: len(pkts), Closed: closed}
	if len(rest) != 0 {
		r.N = -1
	}
	if len(pkts) > 0 {
		r.Header = fmt.Sprintf("%x", model.EncodeHeader(pkts[0].H))
		r.Body = fmt.Sprintf("%x", pkts[0].Clear(key))
	}
	s.next++
	s.seq += 2
	return r, true, nil
}

func c09Alone(w cfggen.World, sc c09Script) ([]c09Reply, error) {
	env, err := startRef(w.Cfg, refOpts{keychain: refsrv.MapKeychain(w.KeychainBytes()), recover: true, quiet: true})
	if err != nil {
		return nil, nil
	}
	defer env.stop()
	d, err := env.dial(cfggen.AddrIn(cfggen.ScopeA, 50).IP(), 5050)
	if err != nil {
		return nil, err
	}
	s := newC09Session(sc)
	var out []c09Reply
	for {
		r, ok, err := s.step(d, []byte(cfggen.KeyA))
		if err != nil {
			return nil, err
		}
		if !ok {
			return out, nil
		}
		out = append(out, r)
		if r.Closed {
			return out, nil
		}
	}
}

func runC09(t failer, c c09Case) (overlap bool) {
	ev.Eval()
	journal("C09", c)
	c.World.Cfg.Restore()
	fail := func(sig, format string, args ...interface{}) {
		violation(t, "C09", "isolation", "C09:"+sig, c, format, args...)
	}
	env, err := startRef(c.World.Cfg, refOpts{keychain: refsrv.MapKeychain(c.World.KeychainBytes()), recover: true, quiet: true})
	if err != nil {
		ev.Class("config-refused")
		return false
	}
	key := []byte(cfggen.KeyA)
	got := make([][]c09Reply, len(c.Scripts))
	if c.Mode == "mux" {
		d, err := env.dial(cfggen.AddrIn(cfggen.ScopeA, 50).IP(), 5050)
		if err != nil {
			t.Fatalf("%v", err)
		}
		sess := make([]*c09Session, len(c.Scripts))
		for i, sc := range c.Scripts {
			sess[i] = newC09Session(sc)
		}
		started, finished := map[int]bool{}, map[int]bool{}
		openNow := 0 // sessions that have started and not finished
		for k := 0; k < len(c.Order); k++ {
			i := c.Order[k]
			if k < len(c.Pause) && c.Pause[k] > 0 {
				ev.Class("real-time-passes-between-turns")
				time.Sleep(time.Duration(c.Pause[k]) * time.Millisecond)
			}
			if k < len(c.Coalesce) && c.Coalesce[k] && k+1 < len(c.Order) && c.Order[k+1] != i && c.Scripts[c.Order[k+1]].Session != c.Scripts[i].Session && !d.c.Closed() {
				j := c.Order[k+1]
				w1, ok1 := sess[i].wire(key)
				w2, ok2 := sess[j].wire(key)
				if ok1 && ok2 {
					ev.Class("two-sessions-packets-in-one-read")
					pkts, rest, closed, err := d.send(append(append([]byte{}, w1...), w2...))
					if err != nil {
						t.Fatalf("%v", err)
					}
					got[i] = append(got[i], sess[i].replyOf(pkts, rest, closed, key))
					got[j] = append(got[j], sess[j].replyOf(pkts, rest, closed, key))
					for _, x := range []int{i, j} {
						if !started[x] {
							started[x] = true
							openNow++
						}
						if sess[x].next >= len(c.Scripts[x].Pkts) && !finished[x] {
							finished[x] = true
							openNow--
						}
					}
					overlap = true
					k++
					continue
				}
			}
			r, ok, err := sess[i].step(d, key)
			if err != nil {
				t.Fatalf("%v", err)
			}
			if !ok {
				continue
			}
			got[i] = append(got[i], r)
			if !started[i] {
				started[i] = true
				openNow++
			}
			if sess[i].next >= len(c.Scripts[i].Pkts) && !finished[i] {
				finished[i] = true
				openNow--
			}
			if openNow >= 2 {
				overlap = true
			}
		}
	} else {
		nconn := 0
		for _, a := range c.Assign {
			if a+1 > nconn {
				nconn = a + 1
			}
		}
		var wg sync.WaitGroup
		errs := make(chan error, nconn)
		var mu sync.Mutex
		for cn := 0; cn < nconn; cn++ {
			d, err := env.dial(cfggen.AddrIn(cfggen.ScopeA, byte(60+cn)).IP(), 6000+cn)
			if err != nil {
				t.Fatalf("%v", err)
			}
			wg.Add(1)
			go func(cn int, d *connDriver) {
				defer wg.Done()
				// the scripts of this connection, round-robin
				var mine []int
				for i, a := range c.Assign {
					if a == cn {
						mine = append(mine, i)
					}
				}
				sess := map[int]*c09Session{}
				for _, i := range mine {
					sess[i] = newC09Session(c.Scripts[i])
				}
				for progress := true; progress; {
					progress = false
					for _, i := range mine {
						r, ok, err := sess[i].step(d, key)
						if err != nil {
							errs <- err
							return
						}
						if ok {
							progress = true
							mu.Lock()
							got[i] = append(got[i], r)
							mu.Unlock()
						}
					}
				}
			}(cn, d)
		}
		wg.Wait()
		close(errs)
		for e := range errs {
			t.Fatalf("%v", e)
		}
		overlap = nconn >= 2
	}
	if e := env.stop(); e != nil {
		t.Fatalf("%v", e)
	}
	aloneCache := map[string][]c09Reply{}
	for i, sc := range c.Scripts {
		var want []c09Reply
		var err error
		ck := ""
		if c.CacheAlone {
			anon := sc
			anon.Session = 0
			b, _ := json.Marshal(anon)
			ck = string(b)
		}
		if cached, ok := aloneCache[ck]; ok && c.CacheAlone {
			sid := fmt.Sprintf("%08x", sc.Session)
			for _, r := range cached {
				if len(r.Header) == 24 {
					r.Header = r.Header[:8] + sid + r.Header[16:]
				}
				want = append(want, r)
			}
		} else {
			want, err = c09Alone(c.World, sc)
			if c.CacheAlone {
				aloneCache[ck] = want
			}
		}
		if err != nil {
			t.Fatalf("%v", err)
		}
		if c.CacheAlone && !reflect.DeepEqual(got[i], want) {
			// the short cut did not predict this session's transcript (a reply may quote the session id
			// in its text): run it alone for real before judging
			if want, err = c09Alone(c.World, sc); err != nil {
				t.Fatalf("%v", err)
			}
		}
		if !reflect.DeepEqual(got[i], want) {
			k := 0
			for k < len(got[i]) && k < len(want) && got[i][k] == want[k] {
				k++
			}
			var g, w c09Reply
			if k < len(got[i]) {
				g = got[i][k]
			}
			if k < len(want) {
				w = want[k]
			}
			fail("transcript-differs", "script %d (%s, session %#x, mode %s): reply %d differs from the reply the session gets when it is alone\n with others: %+v\n alone      : %+v", i, sc.Kind, sc.Session, c.Mode, k, g, w)
		}
	}
	return overlap
}

func classifyC09(c c09Case, overlap bool) {
	ids := map[uint32]bool{}
	for i, sc := range c.Scripts {
		if c.Mode == "mux" && ids[sc.Session] && i == len(c.Scripts)-1 {
			ev.Class("id-of-a-finished-session-taken-again")
		}
		ids[sc.Session] = true
	}
	ev.Class("mode:" + c.Mode)
	for _, s := range c.Scripts {
		ev.Class("script:" + s.Kind)
		if s.Seq0 > 1 {
			ev.Class("script-reaching-sequence-255")
		}
	}
	same := false
	if c.Mode == "conns" {
		seen := map[uint32]int{}
		for i, s := range c.Scripts {
			if cn, ok := seen[s.Session]; ok && cn != c.Assign[i] {
				same = true
			}
			seen[s.Session] = c.Assign[i]
		}
		if same {
			ev.Class("same-session-id-on-two-connections")
		}
	}
	if overlap {
		ev.Class("sessions-overlap")
		ev.NonTrivial(c.Mode, c)
	}
}

func TestC09(t *testing.T) {
	rapid.Check(t, func(rt *rapid.T) {
		c := genC09(rt)
		overlap := runC09(rt, c)
		classifyC09(c, overlap)
	})
}

// TestC09EnumSlowLogin: an ASCII login whose prompts are answered slowly (16.5 s of real time from start to
// password in quick, 65 s in thorough; each gap shorter than the whole) next to one-packet sessions that
// start and finish on the same connection meanwhile.
func TestC09EnumSlowLogin(t *testing.T) {
	total := 16500
	if os.Getenv("VERIF_TIER") == "thorough" {
		total = 65000
	}
	w := rapid.Custom(func(rt *rapid.T) cfggen.World { return cfggen.GenWorld(rt) }).Filter(func(w cfggen.World) bool {
		for name := range w.Cfg.ScopeUsers(cfggen.ScopeA) {
			if pw, ok := w.CorrectPassword(cfggen.ScopeA, name); ok && pw != "" && name != "" {
				return true
			}
		}
		return false
	}).Example(3)
	var user, pw string
	var names []string
	for name := range w.Cfg.ScopeUsers(cfggen.ScopeA) {
		names = append(names, name)
	}
	sortStrings(names)
	for _, name := range names {
		if p, ok := w.CorrectPassword(cfggen.ScopeA, name); ok && p != "" && name != "" {
			user, pw = name, p
			break
		}
	}
	login := c09Script{Kind: "authen:ascii-user-in-continue", Type: 1, Session: 0x501, Pkts: []c09Pkt{
		{Body: model.AuthenStart{Action: 1, Priv: 1, AType: 1, Service: 1, Port: b("tty0"), RemAddr: b("r")}.Encode()},
		{Body: model.AuthenContinue{UserMsg: b(user)}.Encode()},
		{Body: model.AuthenContinue{UserMsg: b(pw)}.Encode()},
	}}
	author := func(id uint32) c09Script {
		return c09Script{Kind: "author", Type: 2, Session: id, Pkts: []c09Pkt{{Body: model.AuthorRequest{Method: 6, Priv: 1, AType: 1, Service: 1, User: b(user), Port: b("tty0"), RemAddr: b("r"), Args: []model.B{b("service=shell"), b("cmd=show"), b("cmd-arg=version")}}.Encode()}}}
	}
	c := c09Case{World: w, Mode: "mux", Scripts: []c09Script{login, author(0x601), author(0x602), author(0x603)}, Assign: []int{0, 0, 0, 0},
		Order: []int{0, 1, 0, 2, 3, 0}, Pause: []int{0, 0, total / 2, 0, total / 2, 0}}
	overlap := runC09(t, c)
	classifyC09(c, overlap)
}

func TestC09Regress(t *testing.T) {
	for _, s := range loadSaved(t, "C09") {
		var c c09Case
		mustUnmarshal(t, s, &c)
		runC09(t, c)
	}
}

// scaleN: how many sessions the scale tests keep waiting on one connection.
func scaleN() int {
	if os.Getenv("VERIF_TIER") == "thorough" {
		return 70000
	}
	return 6000
}

// TestC09EnumScale: thousands of sessions multiplexed on one connection, all of them open at the same time
// (every first packet is sent before any second one), each compared with what it gets alone.  The scripts
// come from the ordinary generator, with a fixed generator seed.
func TestC09EnumScale(t *testing.T) {
	n := scaleN()
	if n > 70000 {
		n = 70000
	}
	c := rapid.Custom(func(rt *rapid.T) c09Case {
		c := c09Case{World: cfggen.GenWorld(rt), Mode: "mux", CacheAlone: n > 12000}
		for i := 0; i < n; i++ {
			// three in four are logins that wait for a continuation
			var sc c09Script
			for k := 0; ; k++ {
				sc = genC09Script(rt, c.World, uint32(0x1000+i))
				if len(sc.Pkts) >= 2 || i%4 == 3 || k > 8 {
					break
				}
			}
			c.Scripts = append(c.Scripts, sc)
			c.Assign = append(c.Assign, 0)
		}
		for round := 0; ; round++ {
			any := false
			for i, sc := range c.Scripts {
				if round < len(sc.Pkts) {
					c.Order = append(c.Order, i)
					any = true
				}
			}
			if !any {
				break
			}
		}
		return c
	}).Example(7)
	waiting := 0
	for _, sc := range c.Scripts {
		if len(sc.Pkts) >= 2 {
			waiting++
		}
	}
	env, err := startRef(c.World.Cfg, refOpts{keychain: refsrv.MapKeychain(c.World.KeychainBytes()), recover: true, quiet: true})
	if err != nil || waiting < n/2 {
		t.Fatalf("HARNESS-BUG: the fixed scale case is vacuous (config error %v, %d of %d scripts have a second packet)", err, waiting, n)
	}
	_ = env.stop()
	overlap := runC09(t, c)
	classifyC09(c, overlap)
	ev.Class(fmt.Sprintf("scale:%d-sessions-on-one-connection", n))
	t.Logf("scale: %d sessions, %d with more than one packet", n, waiting)
}
