package harness

import (
	"fmt"
	"strings"
	"testing"

	"verif/harness/cfggen"
	"verif/harness/ev"
	"verif/harness/model"

	"pgregory.net/rapid"
)

// C11 — authorization obeys policy: first match, whole-string match, default deny; sessions return
// exactly the configured values of the selected services.

type c11Req struct {
	User string   `json:"user"`
	Args []string `json:"args"`
	// Other: sent on a second connection, coming from the other scope
	Other bool `json:"other,omitempty"`
}

type c11Case struct {
	Cfg    cfggen.Config `json:"cfg"`
	Format string        `json:"format"`
	Reqs   []c11Req      `json:"reqs"`
	// Scope the connection comes from (empty = sA, for cases saved before there were two scopes)
	Scope string `json:"scope,omitempty"`
	// Cfg2, if set, is loaded into the running server before request number ReloadAt is sent: from
	// then on it is the policy in force
	Cfg2     *cfggen.Config `json:"cfg2,omitempty"`
	ReloadAt int            `json:"reload_at,omitempty"`
	// Alias: the first configuration reaches the Loader as a value assembled in Go in which equal groups
	// of different users are one value (refOpts.aliasGroups), not as a freshly decoded document
	Alias bool `json:"alias,omitempty"`
}

var (
	c11Words    = []string{"terminal", "exclusive", "version", "system"}
	c11CmdNames = []string{"show", "configure", "ping", "reload"}
)

func genPattern(t *rapid.T) string {
	w := func() string { return rapid.SampledFrom(c11Words).Draw(t, "word") }
	switch rapid.IntRange(0, 27).Draw(t, "pattern_kind") {
	case 26:
		return ".* " + w() // whatever comes first, the line ends in the word
	case 27:
		return "(.* )?" + w() + "( .*)?" // the word anywhere in the line
	case 18:
		return w() + rapid.SampledFrom([]string{"{2}", "{1,2}", "{0,}", "{1}"}).Draw(t, "count") // counted repetition of the last letter
	case 19:
		return rapid.SampledFrom([]string{"9{3}", "x{2,3}", "[0-9]{1,3}", "9{2,}", "(ab){2}"}).Draw(t, "counted")
	case 20:
		return rapid.SampledFrom([]string{"a{2,1}", "x{1001}", "9{3", "{3}", "a{,2}"}).Draw(t, "odd_count") // invalid, or literal braces
	case 21:
		return "(?i)" + strings.ToUpper(w())
	case 22:
		return rapid.SampledFrom([]string{`\d+`, `\w+ \w+`, `\S*`, `\bversion\b`, `\d{3}`}).Draw(t, "perl_class")
	case 23:
		return w() + rapid.SampledFrom([]string{"?", ".*?", "+?", "??"}).Draw(t, "lazy")
	case 24:
		return rapid.SampledFrom([]string{"[^ ]+", "[[:alpha:]]+", "[^0-9]*", "[a-z ]+"}).Draw(t, "class")
	case 25:
		return rapid.SampledFrom([]string{"(?P<n>" + w() + ")", "(?:" + w() + ")+", "(" + w() + ")?" + w()}).Draw(t, "group")
	case 0:
		return w()
	case 1:
		return ".*"
	case 2:
		return w() + "|" + w()
	case 3:
		return "^" + w()
	case 4:
		return w() + "$"
	case 5:
		return "^" + w() + "|" + w() + "$"
	case 6:
		return "(" + w() + "|" + w() + ")"
	case 7:
		return w() + ".*"
	case 8:
		return strings.Replace(w(), "s", `\.s`, 1) // escaped metacharacter that does not match the plain word
	case 9:
		return w() + ` \| ` + w()
	case 10:
		return "[a-z]+"
	case 11:
		return "  " + w() + "\t"
	case 12:
		return ""
	case 13:
		return rapid.SampledFrom([]string{"(", "[a", "a)|(b", "*", `\`}).Draw(t, "invalid")
	case 14:
		return "^" + w() + " " + w() + "$"
	case 15:
		return w() + " (" + w() + "|" + w() + ")"
	case 16:
		return `.*\$`
	default:
		return "^$"
	}
}

func genRules(t *rapid.T, max int) []cfggen.Command {
	n := rapid.IntRange(0, max).Draw(t, "nrules")
	var out []cfggen.Command
	for i := 0; i < n; i++ {
		c := cfggen.Command{
			Name:   rapid.SampledFrom(append([]string{"*", " show "}, c11CmdNames...)).Draw(t, "rule_name"),
			Action: rapid.SampledFrom([]int{cfggen.ActionPermit, cfggen.ActionPermit, cfggen.ActionDeny, cfggen.ActionDeny, 0, 7}).Draw(t, "action"),
		}
		np := rapid.IntRange(0, 3).Draw(t, "npatterns")
		for j := 0; j < np; j++ {
			c.Match = append(c.Match, genPattern(t))
		}
		out = append(out, c)
	}
	return out
}

var c11SvcNames = []string{"shell", "ppp", "junos-exec", "ip", "sA", "scope", "cisco-av-pair", "shell:priv-lvl=15"}

func genServices(t *rapid.T, max int) []cfggen.Service {
	n := rapid.IntRange(0, max).Draw(t, "nservices")
	var out []cfggen.Service
	for i := 0; i < n; i++ {
		s := cfggen.Service{Name: rapid.SampledFrom(c11SvcNames).Draw(t, "svc_name")}
		if rapid.IntRange(0, 5).Draw(t, "pad_name") == 0 {
			s.Name = " " + s.Name + " "
		}
		nv := rapid.IntRange(0, 3).Draw(t, "nset")
		for j := 0; j < nv; j++ {
			v := cfggen.Value{
				Name:     rapid.SampledFrom([]string{"priv-lvl", "local-user-name", "shell:roles", "F5-LTM-User-Role"}).Draw(t, "set_name"),
				Optional: rapid.Bool().Draw(t, "set_optional"),
			}
			nvals := rapid.IntRange(0, 2).Draw(t, "nvals")
			for k := 0; k < nvals; k++ {
				v.Values = append(v.Values, rapid.SampledFrom([]string{"15", "admin", "network-admin", "0", "a b"}).Draw(t, "set_val"))
			}
			s.SetValues = append(s.SetValues, v)
		}
		switch rapid.IntRange(0, 9).Draw(t, "match_kind") {
		case 7:
			// the attribute must be there with an empty value ("cmd=" of a shell session start)
			s.Match = []cfggen.Value{{Name: rapid.SampledFrom([]string{"cmd", "protocol"}).Draw(t, "empty_match_name"), Values: []string{""}}}
		case 8:
			// the attribute must be there, whatever its value
			s.Match = []cfggen.Value{{Name: rapid.SampledFrom([]string{"cmd", "protocol"}).Draw(t, "bare_match_name")}}
		case 0:
			s.Match = []cfggen.Value{{Name: "protocol", Values: []string{"ip"}}}
		case 1:
			s.Match = []cfggen.Value{{Name: "scope", Values: []string{rapid.SampledFrom([]string{cfggen.ScopeA, cfggen.ScopeB}).Draw(t, "match_scope")}}}
		case 3:
			s.Match = []cfggen.Value{{Name: "cisco-av-pair", Values: []string{"shell:priv-lvl=15"}}}
		case 2:
			s.Match = []cfggen.Value{{Name: "protocol", Values: []string{"ip", rapid.SampledFrom([]string{"ip", "lcp"}).Draw(t, "second")}}, {Name: "service", Values: []string{"ppp"}}}
		}
		out = append(out, s)
	}
	return out
}

func genC11Request(t *rapid.T, users []string) c11Req {
	r := c11Req{User: rapid.SampledFrom(users).Draw(t, "req_user")}
	pad := func(s string) string {
		switch rapid.IntRange(0, 9).Draw(t, "pad") {
		case 0:
			return " " + s
		case 1:
			return s + " \n"
		}
		return s
	}
	switch rapid.IntRange(0, 9).Draw(t, "req_kind") {
	case 0, 1, 2, 3, 4, 5: // command authorization
		svc := rapid.SampledFrom([]string{"service=shell", "service=shell", "service=shell", "service=shell", "service=shell", "service=shell", "service=shell", "service*shell", "service=exec", ""}).Draw(t, "service_arg")
		cmd := rapid.SampledFrom(append([]string{"cmd=show", "cmd=configure", "cmd*show", "cmd=", "cmd= show", ""}, "cmd="+rapid.SampledFrom(c11CmdNames).Draw(t, "cmd_name"))).Draw(t, "cmd_arg")
		var cargs []string
		n := rapid.IntRange(0, 4).Draw(t, "ncmdargs")
		for i := 0; i < n; i++ {
			sep := rapid.SampledFrom([]string{"=", "=", "=", "=", "*"}).Draw(t, "cmd_arg_sep")
			cargs = append(cargs, "cmd-arg"+sep+rapid.SampledFrom(append([]string{";", "reload", "|", "a b", "", "terminal;reload", "<cr>", "detail=all", "a*b", "x=y*z", "force<cr>", "reload<CR>", "<cr><cr>", "999", "99", "xx", "xxx", "abab", "9{3}", "x{2,3}", "TERMINAL", "terminall", "versio", "123"}, c11Words...)).Draw(t, "cmd_arg_val"))
		}
		if rapid.IntRange(0, 11).Draw(t, "long_command_line") == 0 {
			// a long command line: dozens of long arguments in front of the ones drawn above (several
			// thousand octets once joined; what decides is at the end)
			var long []string
			k := rapid.IntRange(20, 60).Draw(t, "long_nargs")
			l := rapid.IntRange(100, 240).Draw(t, "long_arglen")
			for i := 0; i < k; i++ {
				long = append(long, "cmd-arg=h"+strings.Repeat(string(rune('a'+i%26)), l))
			}
			cargs = append(long, cargs...)
		}
		switch rapid.IntRange(0, 4).Draw(t, "line_end") {
		case 0:
			cargs = append(cargs, "cmd-arg=<cr>")
		case 1:
			cargs = append(cargs, "cmd-arg=<CR>")
		case 2:
			// a last argument that merely ends in the line-ending marker is an argument like any other
			cargs = append(cargs, "cmd-arg="+rapid.SampledFrom(append([]string{"force", "x "}, c11Words...)).Draw(t, "le_prefix")+rapid.SampledFrom([]string{"<cr>", "<CR>"}).Draw(t, "le_suffix"))
		}
		for _, a := range []string{svc, cmd} {
			if a != "" {
				r.Args = append(r.Args, pad(a))
			}
		}
		for _, a := range cargs {
			r.Args = append(r.Args, pad(a))
		}
		switch rapid.IntRange(0, 7).Draw(t, "shuffle") {
		case 0: // service after cmd
			if len(r.Args) >= 2 {
				r.Args[0], r.Args[1] = r.Args[1], r.Args[0]
			}
		case 1: // a second cmd argument (ambiguous request)
			r.Args = append(r.Args, "cmd="+rapid.SampledFrom(c11CmdNames).Draw(t, "second_cmd"))
		case 2: // something after the line ending
			r.Args = append(r.Args, "priv-lvl=15")
		case 3:
			if rapid.IntRange(0, 3).Draw(t, "undecodable") == 0 {
				r.Args = append(r.Args, "x") // one-byte argument: not a valid AuthorRequest
			}
		}
	default: // session authorization
		n := rapid.IntRange(0, 4).Draw(t, "nsessargs")
		for i := 0; i < n; i++ {
			r.Args = append(r.Args, pad(rapid.SampledFrom([]string{"service=shell", "service=ppp", "service*ppp", "protocol=ip", "protocol*ip", "protocol=lcp", "cmd=", "cmd*", "service=junos-exec", "shell*", "ip=1", "service=shell", "x=shell", "scope=sB", "cisco-av-pair*shell:priv-lvl=15", "cisco-av-pair=shell:priv-lvl=15", "cisco-av-pair*x"}).Draw(t, "sess_arg")))
		}
	}
	return r
}

func genC11(t *rapid.T) c11Case {
	c := c11Case{Format: rapid.SampledFrom([]string{"yaml", "yaml", "json"}).Draw(t, "format")}
	c.Cfg.Secrets = []cfggen.Secret{cfggen.NewSecret(cfggen.ScopeA, cfggen.KeyA, cfggen.PrefixA), cfggen.NewSecret(cfggen.ScopeB, cfggen.KeyB, cfggen.PrefixB)}
	c.Scope = rapid.SampledFrom([]string{cfggen.ScopeA, cfggen.ScopeA, cfggen.ScopeB}).Draw(t, "conn_scope")
	other := map[string]string{cfggen.ScopeA: cfggen.ScopeB, cfggen.ScopeB: cfggen.ScopeA}[c.Scope]
	genUsers := func(twin bool) []cfggen.User {
		var users []cfggen.User
		nu := rapid.IntRange(1, 2).Draw(t, "nusers")
		names := []string{"alice", "bob"}
		for i := 0; i < nu; i++ {
			// users may live in both scopes, listed in either order; the scope the connection comes from
			// always has alice
			scopes := rapid.SampledFrom([][]string{{cfggen.ScopeA, cfggen.ScopeB}, {cfggen.ScopeB, cfggen.ScopeA}, {c.Scope}, {c.Scope}}).Draw(t, "user_scopes")
			if i > 0 && rapid.IntRange(0, 3).Draw(t, "other_scope_only") == 0 {
				scopes = []string{other}
			}
			if i == 0 && twin {
				scopes = []string{c.Scope}
			}
			u := cfggen.User{Name: names[i], Scopes: append([]string{}, scopes...)}
			u.Commands = genRules(t, 6)
			u.Services = genServices(t, 3)
			ng := rapid.IntRange(0, 2).Draw(t, "ngroups")
			for g := 0; g < ng; g++ {
				u.Groups = append(u.Groups, cfggen.Group{Name: fmt.Sprintf("g%d", g), Commands: genRules(t, 4), Services: genServices(t, 2)})
			}
			users = append(users, u)
		}
		if twin {
			// a second entry of the same name, for the other scope only, with rules of its own
			users = append(users, cfggen.User{Name: "alice", Scopes: []string{other}, Commands: genRules(t, 6), Services: genServices(t, 3)})
		}
		return users
	}
	twin := rapid.IntRange(0, 3).Draw(t, "twin_user") == 0
	c.Cfg.Users = genUsers(twin)
	// one case in five has an entry whose name differs from alice's by a blank only, with rules of its own:
	// names are compared as they are written
	reqUsers := []string{"alice", "alice", "alice", "alice", "alice", "alice", "bob", "mallory"}
	if rapid.IntRange(0, 4).Draw(t, "lookalike_name") == 0 {
		padded := rapid.SampledFrom([]string{"alice ", " alice", "alice\t"}).Draw(t, "padded_name")
		c.Cfg.Users = append(c.Cfg.Users, cfggen.User{Name: padded, Scopes: []string{cfggen.ScopeA, cfggen.ScopeB}, Commands: genRules(t, 4), Services: genServices(t, 2)})
		reqUsers = append(reqUsers, padded, padded, "alice")
	}
	if rapid.IntRange(0, 3).Draw(t, "reload") == 0 {
		c2 := cfggen.Config{Secrets: c.Cfg.Secrets, Users: genUsers(twin)}
		c.Cfg2 = &c2
	}
	nr := rapid.IntRange(1, 6).Draw(t, "nreqs")
	for i := 0; i < nr; i++ {
		c.Reqs = append(c.Reqs, genC11Request(t, reqUsers))
	}
	// the same question again: later (after the reload, if there is one) and/or from the other scope
	if twin || c.Cfg2 != nil {
		c.ReloadAt = len(c.Reqs)
		for _, r := range append([]c11Req{}, c.Reqs...) {
			switch rapid.IntRange(0, 3).Draw(t, "repeat") {
			case 0:
			case 1:
				c.Reqs = append(c.Reqs, r)
			default:
				r.Other = true
				c.Reqs = append(c.Reqs, r)
			}
		}
		if c.Cfg2 != nil {
			c.ReloadAt = rapid.IntRange(1, len(c.Reqs)).Draw(t, "reload_at")
		}
	}
	return c
}

func encodableArgs(args []string) bool {
	if len(args) > 255 {
		return false
	}
	for _, a := range args {
		if len(a) < 2 || len(a) > 255 || !isASCII([]byte(a)) {
			return false
		}
	}
	return true
}

func runC11(t failer, c c11Case) {
	ev.Eval()
	journal("C11", c)
	c.Cfg.Restore()
	fail := func(sig, format string, args ...interface{}) {
		violation(t, "C11", "author", "C11:"+sig, c, format, args...)
	}
	env, err := startRef(c.Cfg, refOpts{format: c.Format, recover: true, aliasGroups: c.Alias})
	if err != nil {
		ev.Class("config-refused")
		return
	}
	defer func() {
		if e := env.stop(); e != nil {
			t.Fatalf("%v", e)
		}
	}()
	scope := c.Scope
	if scope == "" {
		scope = cfggen.ScopeA
	}
	connScope := scope
	otherScope := map[string]string{cfggen.ScopeA: cfggen.ScopeB, cfggen.ScopeB: cfggen.ScopeA}[connScope]
	dMain, err := env.dial(cfggen.AddrIn(connScope, 3).IP(), 999)
	if err != nil {
		t.Fatalf("%v", err)
	}
	var dOther *connDriver
	ev.Class("conn-scope:" + scope)
	inForce := c.Cfg
	for i, r := range c.Reqs {
		if c.Cfg2 != nil && i == c.ReloadAt {
			c.Cfg2.Restore()
			doc := c.Cfg2.YAML()
			if c.Format == "json" {
				doc = c.Cfg2.JSON()
			}
			if err := env.stack.Reload(doc); err != nil {
				ev.Class("reload-refused")
			} else {
				ev.Class("policy-reloaded-mid-case")
				inForce = *c.Cfg2
				// a connection keeps the handler and user set it was bound to when it was accepted: the new
				// policy is what new connections get
				if dMain, err = env.dial(cfggen.AddrIn(connScope, 5).IP(), 997); err != nil {
					t.Fatalf("%v", err)
				}
				dOther = nil
			}
		}
		scope, d := connScope, dMain
		if dMain.c.Closed() && !r.Other {
			continue // the connection's scope serves nobody under the reloaded configuration
		}
		if r.Other {
			ev.Class("request-from-other-scope")
			if dOther == nil {
				if dOther, err = env.dial(cfggen.AddrIn(otherScope, byte(4+i%200)).IP(), 998); err != nil {
					t.Fatalf("%v", err)
				}
			}
			if dOther.c.Closed() {
				continue // the other scope serves nobody under this configuration
			}
			scope, d = otherScope, dOther
		}
		key := scopeKey(scope)
		var margs []model.B
		for _, a := range r.Args {
			margs = append(margs, model.B(a))
		}
		body := model.AuthorRequest{Method: 6, Priv: 1, AType: 1, Service: 1, User: model.B(r.User), Port: b("tty0"), RemAddr: b("192.0.2.9"), Args: margs}.Encode()
		wire := model.Frame(key, model.Header{Version: 0xc0, Type: model.TypeAuthor, Seq: 1, Session: uint32(0x2000 + i)}, body)
		pkts, _, closed, err := d.send(wire)
		if err != nil {
			t.Fatalf("%v", err)
		}
		if closed {
			fail("connection-closed", "request %d %q: connection closed", i, r.Args)
		}
		if len(pkts) != 1 {
			// one reply per request is C07's property; without a reply there is nothing to compare
			ev.Class("no-single-reply")
			continue
		}
		rep, ok, _ := model.DecodeAuthorReply(pkts[0].Clear(key))
		if !ok {
			fail("reply-undecodable", "request %d: reply does not decode as an authorization REPLY", i)
		}
		var got []string
		for _, a := range rep.Args {
			got = append(got, string(a))
		}
		if !encodableArgs(r.Args) {
			ev.Class("req:undecodable")
			if rep.Status == cfggen.AuthorPassAdd || rep.Status == cfggen.AuthorPassRepl {
				fail("undecodable-request-granted", "request %d %q is not a valid AuthorRequest (argument shorter than 2 bytes) but was answered status %#x", i, r.Args, rep.Status)
			}
			continue
		}
		v := inForce.Authorize(scope, cfggen.AuthzRequest{User: r.User, Args: r.Args})
		ev.Class("mode:" + v.Mode)
		switch rep.Status {
		case cfggen.AuthorPassAdd, cfggen.AuthorPassRepl:
			ev.Class("reply:PASS")
		case cfggen.AuthorFail:
			ev.Class("reply:FAIL")
		default:
			ev.Class("reply:other")
		}
		if !v.Accepts(rep.Status, got) {
			sig := "wrong-decision"
			if rep.Status == cfggen.AuthorPassAdd || rep.Status == cfggen.AuthorPassRepl {
				sig = "granted-against-policy"
				if v.Mode == "session" {
					sig = "session-values-differ"
				}
			} else if v.Mode == "command" {
				sig = "denied-against-policy"
			}
			fail(sig, "request %d user %q args %q (%s mode%s): answered status %#x args %q; the policy allows statuses %#x with args %q", i, r.User, r.Args, v.Mode, ifs(v.Why != "", ", "+v.Why, ""), rep.Status, got, v.Statuses, v.Args)
		}
	}
}

func ifs(c bool, a, b string) string {
	if c {
		return a
	}
	return b
}

func classifyC11(c c11Case) {
	nt := false
	for _, u := range c.Cfg.Users {
		acts := map[string]map[int]bool{}
		rules := append([]cfggen.Command{}, u.Commands...)
		for _, g := range u.Groups {
			rules = append(rules, g.Commands...)
		}
		for _, r := range rules {
			n := strings.TrimSpace(r.Name)
			if acts[n] == nil {
				acts[n] = map[int]bool{}
			}
			acts[n][r.Action] = true
			for _, p := range r.Match {
				if strings.ContainsAny(p, "|^$\\") {
					nt = true
					ev.Class("pattern:alternation/anchor/escape")
				}
			}
		}
		for _, a := range acts {
			if len(a) >= 2 {
				nt = true
				ev.Class("rules:>=2-actions-for-one-command")
			}
		}
		svcs := append([]cfggen.Service{}, u.Services...)
		for _, g := range u.Groups {
			svcs = append(svcs, g.Services...)
		}
		for _, s := range svcs {
			if len(s.Match) > 0 {
				nt = true
				ev.Class("service:match-condition")
			}
		}
		if len(u.Groups) > 0 {
			ev.Class("user:has-groups")
		}
	}
	ev.Class("format:" + c.Format)
	if nt {
		ev.NonTrivial("c11", c)
	}
}

func TestC11(t *testing.T) {
	rapid.Check(t, func(rt *rapid.T) {
		c := genC11(rt)
		runC11(rt, c)
		classifyC11(c)
	})
}

func TestC11Regress(t *testing.T) {
	for _, s := range loadSaved(t, "C11") {
		var probe struct {
			Conc int `json:"concurrent_connections"`
		}
		mustUnmarshal(t, s, &probe)
		if probe.Conc > 0 {
			runC11Concurrent(t)
			continue
		}
		var c c11Case
		mustUnmarshal(t, s, &c)
		runC11(t, c)
	}
}

// TestC11EnumPatterns: every kind of pattern the generator knows, alone in a permit rule (and alone in a deny
// rule in front of a permit-all), against every argument value of the pool, one and two arguments: the
// decisions are the model's.  Deterministic, so that no kind of pattern depends on the draw of the day.
// TestC11EnumSharedGroupValues: users without rules of their own who inherit from the same first group
// and from different later groups, with the configuration held the way a Go provider holds it (one value
// per group, slices with room to spare).  What one user inherits must not depend on what another does.
func TestC11EnumSharedGroupValues(t *testing.T) {
	perm := func(n string, m ...string) cfggen.Command { return cfggen.Command{Name: n, Match: m, Action: cfggen.ActionPermit} }
	deny := func(n string, m ...string) cfggen.Command { return cfggen.Command{Name: n, Match: m, Action: cfggen.ActionDeny} }
	for _, format := range []string{"yaml", "json"} {
		for nshared := 1; nshared <= 4; nshared++ {
			var c c11Case
			c.Format, c.Alias = format, true
			c.Cfg.Secrets = []cfggen.Secret{cfggen.NewSecret(cfggen.ScopeA, cfggen.KeyA, cfggen.PrefixA)}
			shared := cfggen.Group{Name: "base", Commands: []cfggen.Command{perm("show", "version"), deny("configure"), perm("ping"), deny("show", "system")}[:nshared],
				Services: []cfggen.Service{{Name: "shell", SetValues: []cfggen.Value{{Name: "priv-lvl", Values: []string{"1"}}}}}}
			tails := []cfggen.Group{
				{Name: "ops", Commands: []cfggen.Command{deny("reload"), perm("*")}, Services: []cfggen.Service{{Name: "ppp", SetValues: []cfggen.Value{{Name: "addr-pool", Values: []string{"p1"}}}}}},
				{Name: "ro", Commands: []cfggen.Command{deny("*")}},
				{Name: "adm", Commands: []cfggen.Command{perm("*")}, Services: []cfggen.Service{{Name: "ppp", SetValues: []cfggen.Value{{Name: "addr-pool", Values: []string{"p9"}}}}}},
			}
			for i, g := range tails {
				c.Cfg.Users = append(c.Cfg.Users, cfggen.User{Name: fmt.Sprintf("u%d", i), Scopes: []string{cfggen.ScopeA}, Groups: []cfggen.Group{shared, g}})
			}
			c.Cfg.Users = append(c.Cfg.Users, cfggen.User{Name: "solo", Scopes: []string{cfggen.ScopeA}, Groups: []cfggen.Group{shared}})
			for round := 0; round < 2; round++ {
				for _, u := range []string{"u0", "u1", "u2", "solo"} {
					for _, cmd := range [][]string{{"cmd=reload"}, {"cmd=show", "cmd-arg=version"}, {"cmd=show", "cmd-arg=system"}, {"cmd=configure"}, {"cmd=ping"}, {"cmd=clear"}} {
						c.Reqs = append(c.Reqs, c11Req{User: u, Args: append([]string{"service=shell"}, cmd...)})
					}
					c.Reqs = append(c.Reqs, c11Req{User: u, Args: []string{"service=ppp", "protocol=ip"}}, c11Req{User: u, Args: []string{"service=shell", "cmd="}})
				}
			}
			runC11(t, c)
			classifyC11(c)
			ev.Class("aliased-groups")
		}
	}
}

func TestC11EnumPatterns(t *testing.T) {
	patterns := []string{"terminal", ".*", "terminal|exclusive", "^terminal", "version$", "^terminal|version$", "(terminal|system)", "version.*", `\.system`, `terminal \| reload`,
		"[a-z]+", "  terminal\t", "", "(", "[a", "*", `\`, "^terminal version$", "terminal (version|system)", `.*\$`, "^$",
		"terminal{2}", "terminal{1,2}", "versio{0,}", "9{3}", "x{2,3}", "[0-9]{1,3}", "9{2,}", "(ab){2}", "a{2,1}", "x{1001}", "9{3", "{3}", "a{,2}",
		"(?i)TERMINAL", `\d+`, `\w+ \w+`, `\S*`, `\bversion\b`, `\d{3}`, "terminal?", "version.*?", "terminal+?", "version??", "[^ ]+", "[[:alpha:]]+", "[^0-9]*", "[a-z ]+",
		"(?P<n>terminal)", "(?:version)+", "(system)?terminal", ".* version", "(.* )?terminal( .*)?"}
	values := append([]string{";", "reload", "|", "a b", "", "terminal;reload", "detail=all", "a*b", "999", "99", "9999", "xx", "xxx", "x", "abab", "ab", "9{3}", "x{2,3}", "TERMINAL", "terminall", "terminal", "versio", "version", "123", "12", "system terminal", "$"}, c11Words...)
	for half := 0; half < 2; half++ {
		var c c11Case
		c.Format = []string{"yaml", "json"}[half]
		c.Cfg.Secrets = []cfggen.Secret{cfggen.NewSecret(cfggen.ScopeA, cfggen.KeyA, cfggen.PrefixA)}
		for i, p := range patterns {
			permit := cfggen.User{Name: fmt.Sprintf("p%d", i), Scopes: []string{cfggen.ScopeA}, Commands: []cfggen.Command{{Name: "show", Match: []string{p}, Action: cfggen.ActionPermit}}}
			deny := cfggen.User{Name: fmt.Sprintf("d%d", i), Scopes: []string{cfggen.ScopeA}, Commands: []cfggen.Command{{Name: "show", Match: []string{p}, Action: cfggen.ActionDeny}, {Name: "*", Action: cfggen.ActionPermit}}}
			c.Cfg.Users = append(c.Cfg.Users, permit, deny)
			for k, v := range values {
				if (i+k)%2 != half {
					continue
				}
				for _, u := range []string{permit.Name, deny.Name} {
					c.Reqs = append(c.Reqs, c11Req{User: u, Args: []string{"service=shell", "cmd=show", "cmd-arg=" + v}})
				}
				if k%5 == 0 {
					c.Reqs = append(c.Reqs, c11Req{User: permit.Name, Args: []string{"service=shell", "cmd=show", "cmd-arg=" + v, "cmd-arg=" + values[(k+7)%len(values)]}})
				}
			}
		}
		runC11(t, c)
		classifyC11(c)
	}
}
