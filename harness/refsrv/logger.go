package refsrv

import (
	"context"
	"fmt"
	"sync"

	tq "github.com/facebookincubator/tacquito"
)

// LogEntry is one call the server made on its logger.
type LogEntry struct {
	Kind    string            `json:"kind"` // infof | errorf | debugf | record | set
	Text    string            `json:"text,omitempty"`
	Map     map[string]string `json:"map,omitempty"`     // record: the map as passed; set: the fields offered
	Obscure []string          `json:"obscure,omitempty"` // record: keys the call marks as to be obscured
	Keys    []string          `json:"keys,omitempty"`    // set: the keys selected for retention
}

// RecLogger records every call.  Set really retains the selected fields in the context (as the
// commented-out reference implementation in cmds/server/log intends), so that what is retained becomes
// observable in later records.
type RecLogger struct {
	mu      sync.Mutex
	entries []LogEntry
	// Tee, if set, receives every Infof/Errorf/Debugf/Record call after it has been recorded, with the
	// arguments as the server passed them (the reference logger of cmds/server/log, writing to a buffer)
	Tee interface {
		Infof(ctx context.Context, format string, args ...interface{})
		Errorf(ctx context.Context, format string, args ...interface{})
		Debugf(ctx context.Context, format string, args ...interface{})
		Record(ctx context.Context, r map[string]string, obscure ...string)
	}
}

func (l *RecLogger) add(e LogEntry) { l.mu.Lock(); l.entries = append(l.entries, e); l.mu.Unlock() }

func (l *RecLogger) Infof(ctx context.Context, format string, args ...interface{}) {
	l.add(LogEntry{Kind: "infof", Text: fmt.Sprintf(format, args...)})
	if l.Tee != nil {
		l.Tee.Infof(ctx, format, args...)
	}
}
func (l *RecLogger) Errorf(ctx context.Context, format string, args ...interface{}) {
	l.add(LogEntry{Kind: "errorf", Text: fmt.Sprintf(format, args...)})
	if l.Tee != nil {
		l.Tee.Errorf(ctx, format, args...)
	}
}
func (l *RecLogger) Debugf(ctx context.Context, format string, args ...interface{}) {
	l.add(LogEntry{Kind: "debugf", Text: fmt.Sprintf(format, args...)})
	if l.Tee != nil {
		l.Tee.Debugf(ctx, format, args...)
	}
}
func (l *RecLogger) Record(ctx context.Context, r map[string]string, obscure ...string) {
	cp := make(map[string]string, len(r))
	for k, v := range r {
		cp[k] = v
	}
	l.add(LogEntry{Kind: "record", Map: cp, Obscure: append([]string{}, obscure...)})
	if l.Tee != nil {
		l.Tee.Record(ctx, r, obscure...)
	}
}
func (l *RecLogger) Set(ctx context.Context, fields map[string]string, keys ...tq.ContextKey) context.Context {
	e := LogEntry{Kind: "set", Map: map[string]string{}}
	for _, k := range keys {
		e.Keys = append(e.Keys, string(k))
		if v, ok := fields[string(k)]; ok {
			e.Map[string(k)] = v
			ctx = context.WithValue(ctx, k, v)
		}
	}
	l.add(e)
	return ctx
}

// Entries returns a snapshot.
func (l *RecLogger) Entries() []LogEntry {
	l.mu.Lock()
	defer l.mu.Unlock()
	return append([]LogEntry{}, l.entries...)
}

// Reset forgets everything recorded.
func (l *RecLogger) Reset() { l.mu.Lock(); l.entries = nil; l.mu.Unlock() }

// NopLogger takes no lock and keeps nothing (C15: the harness must not synchronise on the server's behalf).
type NopLogger struct{}

func (NopLogger) Infof(ctx context.Context, format string, args ...interface{})      {}
func (NopLogger) Errorf(ctx context.Context, format string, args ...interface{})     {}
func (NopLogger) Debugf(ctx context.Context, format string, args ...interface{})     {}
func (NopLogger) Record(ctx context.Context, r map[string]string, obscure ...string) {}
func (NopLogger) Set(ctx context.Context, fields map[string]string, keys ...tq.ContextKey) context.Context {
	return ctx
}
