// Package refsrv assembles the reference server exactly as cmds/server/main.go does (loader + yaml/json
// unmarshaller + prefix secret provider + START handler + bcrypt authenticator + stringy authorizer +
// local file accounter), with the logger, accounting sink and keychain injected by the harness.
package refsrv

import (
	"context"
	"fmt"
	"log/syslog"
	"net"
	"os"
	"path/filepath"
	"sync"

	tq "github.com/facebookincubator/tacquito"
	"github.com/facebookincubator/tacquito/cmds/server/config"
	"github.com/facebookincubator/tacquito/cmds/server/config/accounters/local"
	syslogacct "github.com/facebookincubator/tacquito/cmds/server/config/accounters/syslog"
	"github.com/facebookincubator/tacquito/cmds/server/config/authenticators/bcrypt"
	"github.com/facebookincubator/tacquito/cmds/server/config/authorizers/stringy"
	"github.com/facebookincubator/tacquito/cmds/server/config/secret"
	"github.com/facebookincubator/tacquito/cmds/server/config/secret/prefix"
	"github.com/facebookincubator/tacquito/cmds/server/handlers"
	"github.com/facebookincubator/tacquito/cmds/server/loader"
	jsonl "github.com/facebookincubator/tacquito/cmds/server/loader/json"
	yamll "github.com/facebookincubator/tacquito/cmds/server/loader/yaml"
)

// Logger is the union of the logger interfaces of the reference server's packages.
type Logger interface {
	Infof(ctx context.Context, format string, args ...interface{})
	Errorf(ctx context.Context, format string, args ...interface{})
	Debugf(ctx context.Context, format string, args ...interface{})
	Record(ctx context.Context, r map[string]string, obscure ...string)
	Set(ctx context.Context, fields map[string]string, keys ...tq.ContextKey) context.Context
}

// Sink receives accounting records the way a log.Logger would.
type Sink interface {
	Printf(format string, args ...interface{})
}

// Keychain answers the bcrypt authenticator's keychain queries (users without a "hash" option).
type Keychain interface {
	GetSecret(ctx context.Context, name, group string) ([]byte, error)
}

// unmarshaller is what both document loaders offer.
type unmarshaller interface {
	Unmarshal(b []byte) error
	Config() chan config.ServerConfig
}

// Options selects what is injected.
type Options struct {
	Logger   Logger
	Sink     Sink
	Keychain Keychain
	Format   string // "yaml" (default) or "json"
	// UM, if set, is used instead of a document loader (doc is ignored): whatever arrives on its Config()
	// channel is what the Loader builds from
	UM interface {
		Unmarshal(b []byte) error
		Config() chan config.ServerConfig
	}
	// ViaFile: the first document is written to a file and read with Load(path), as cmds/server/main.go does
	ViaFile bool
	// Syslog, if set, makes the stack register the syslog accounter (which cmds/server/main.go leaves
	// out) for accounters of type SYSLOG, writing to this writer
	Syslog *syslog.Writer
	// SecretKeychain, if set, replaces the stock shared-secret keychain (secret.New(), which never fails)
	SecretKeychain interface {
		Add(k config.Keychain) func(context.Context, string) ([]byte, error)
	}
	// Ctx, if set, is the context handed to the Loader (cmds/server/main.go gives the Loader and Serve
	// the same one); otherwise the stack gets a context of its own, cancelled by Close
	Ctx context.Context
}

// Stack is one assembled reference configuration stack.
type Stack struct {
	Loader *loader.Loader
	um     unmarshaller
	cancel context.CancelFunc
}

// NopSink drops records.
type NopSink struct{}

func (NopSink) Printf(format string, args ...interface{}) {}

// MapKeychain serves hashes by user name.
type MapKeychain map[string][]byte

func (m MapKeychain) GetSecret(ctx context.Context, name, group string) ([]byte, error) {
	if h, ok := m[name]; ok {
		return h, nil
	}
	return nil, fmt.Errorf("no keychain entry for %q", name)
}

// New loads doc and builds the stack.  An error means the document was refused by the unmarshaller
// (nothing is served then).
func New(doc []byte, o Options) (*Stack, error) {
	var um unmarshaller
	if o.Format == "json" {
		um = jsonl.New()
	} else {
		um = yamll.New()
	}
	if o.UM != nil {
		um = o.UM
	} else if o.ViaFile {
		dir, err := os.MkdirTemp("", "verif-refsrv-")
		if err != nil {
			return nil, err
		}
		defer os.RemoveAll(dir)
		path := filepath.Join(dir, "tacquito."+map[bool]string{true: "json", false: "yaml"}[o.Format == "json"])
		if err := os.WriteFile(path, doc, 0o600); err != nil {
			return nil, err
		}
		l, ok := um.(interface{ Load(string) error })
		if !ok {
			return nil, fmt.Errorf("the document loader has no Load")
		}
		if err := l.Load(path); err != nil {
			return nil, err
		}
	} else if err := um.Unmarshal(doc); err != nil {
		return nil, err
	}
	if o.Sink == nil {
		o.Sink = NopSink{}
	}
	if o.Keychain == nil {
		o.Keychain = MapKeychain{}
	}
	acct, err := local.New(o.Logger, local.SetLogSink(o.Sink))
	if err != nil {
		return nil, err
	}
	parent := o.Ctx
	if parent == nil {
		parent = context.Background()
	}
	ctx, cancel := context.WithCancel(parent)
	var extra []loader.Option
	if o.Syslog != nil {
		extra = append(extra, loader.RegisterAccounter(config.SYSLOG, syslogacct.New(noCtx{o.Logger}, o.Syslog)))
	}
	if o.SecretKeychain == nil {
		o.SecretKeychain = secret.New()
	}
	l, err := loader.NewLoader(ctx, um, append(extra,
		loader.SetLoggerProvider(o.Logger),
		loader.SetKeychainProvider(o.SecretKeychain),
		loader.SetConfigProvider(config.New()),
		loader.SetAuthorizerProvider(stringy.New(o.Logger)),
		loader.RegisterSecretProviderType(config.PREFIX, prefix.New(o.Logger)),
		loader.RegisterHandlerType(config.START, handlers.NewStart(o.Logger)),
		loader.RegisterAuthenticator(config.BCRYPT, bcrypt.New(o.Logger, o.Keychain)),
		loader.RegisterAccounter(config.FILE, acct),
	)...)
	if err != nil {
		cancel()
		return nil, err
	}
	l.BlockUntilLoaded()
	return &Stack{Loader: l, um: um, cancel: cancel}, nil
}

// noCtx adapts the logger to the context-less interface of the syslog accounter.
type noCtx struct{ l Logger }

func (n noCtx) Infof(format string, args ...interface{}) {
	n.l.Infof(context.Background(), format, args...)
}
func (n noCtx) Errorf(format string, args ...interface{}) {
	n.l.Errorf(context.Background(), format, args...)
}

// Reload feeds another document to the same unmarshaller and returns once it is in force (or was
// refused).  The channel between unmarshaller and loader has capacity one and the loader applies one
// configuration at a time, so pushing the same document twice more returns only after the first push
// has been applied completely.
func (s *Stack) Reload(doc []byte) error {
	if err := s.um.Unmarshal(doc); err != nil {
		return err
	}
	_ = s.um.Unmarshal(doc)
	_ = s.um.Unmarshal(doc)
	return nil
}

// Load makes the document loader read a file, the way the file watcher reloads a configuration.
func (s *Stack) Load(path string) error {
	if l, ok := s.um.(interface{ Load(string) error }); ok {
		return l.Load(path)
	}
	return fmt.Errorf("the document loader has no Load")
}

// Unmarshaller exposes the document loader (C16 drives it directly).
func (s *Stack) Unmarshal(doc []byte) error { return s.um.Unmarshal(doc) }

// Close cancels the loader's context.
func (s *Stack) Close() { s.cancel() }

// Call is one handler invocation seen by a Recorder.
type Call struct {
	Conn    string `json:"conn"`
	Session uint32 `json:"session"`
	Seq     int    `json:"seq"`
	Depth   int    `json:"depth"`   // 0 = scope entry handler, n = n-th continuation
	Replies int    `json:"replies"` // Reply/ReplyWithContext calls
	Writes  int    `json:"writes"`  // raw Write calls
	Nexts   int    `json:"nexts"`
	Panic   string `json:"panic,omitempty"`
	Done    bool   `json:"done"`
}

// Recorder wraps handlers to observe invocations, replies and panics.
type Recorder struct {
	mu    sync.Mutex
	calls []*Call
	// OnBegin/OnEnd, if set, are called around every invocation (event log stamping).
	OnBegin func(c *Call)
	OnEnd   func(c *Call)
	// Recover makes the wrapper swallow panics (recording them) instead of letting the process die.
	Recover bool
}

// Calls returns a snapshot.
func (r *Recorder) Calls() []Call {
	r.mu.Lock()
	defer r.mu.Unlock()
	out := make([]Call, len(r.calls))
	for i, c := range r.calls {
		out[i] = *c
	}
	return out
}

// Reset forgets recorded calls.
func (r *Recorder) Reset() { r.mu.Lock(); r.calls = nil; r.mu.Unlock() }

type wrapped struct {
	r     *Recorder
	h     tq.Handler
	depth int
}

func (w wrapped) Handle(resp tq.Response, req tq.Request) {
	c := &Call{Session: uint32(req.Header.SessionID), Seq: int(req.Header.SeqNo), Depth: w.depth}
	if v, ok := req.Context.Value(tq.ContextConnRemoteAddr).(string); ok {
		c.Conn = v
	}
	w.r.mu.Lock()
	w.r.calls = append(w.r.calls, c)
	w.r.mu.Unlock()
	if w.r.OnBegin != nil {
		w.r.OnBegin(c)
	}
	defer func() {
		if p := recover(); p != nil {
			w.r.mu.Lock()
			c.Panic = fmt.Sprint(p)
			w.r.mu.Unlock()
			if !w.r.Recover {
				panic(p)
			}
		}
		w.r.mu.Lock()
		c.Done = true
		w.r.mu.Unlock()
		if w.r.OnEnd != nil {
			w.r.OnEnd(c)
		}
	}()
	w.h.Handle(&respWrap{Response: resp, w: w, c: c}, req)
}

type respWrap struct {
	tq.Response
	w wrapped
	c *Call
}

func (r *respWrap) Reply(v tq.EncoderDecoder) (int, error) {
	r.w.r.mu.Lock()
	r.c.Replies++
	r.w.r.mu.Unlock()
	return r.Response.Reply(v)
}

func (r *respWrap) ReplyWithContext(ctx context.Context, v tq.EncoderDecoder, writers ...tq.Writer) (int, error) {
	r.w.r.mu.Lock()
	r.c.Replies++
	r.w.r.mu.Unlock()
	return r.Response.ReplyWithContext(ctx, v, writers...)
}

func (r *respWrap) Write(p *tq.Packet) (int, error) {
	r.w.r.mu.Lock()
	r.c.Writes++
	r.w.r.mu.Unlock()
	return r.Response.Write(p)
}

func (r *respWrap) Next(next tq.Handler) {
	r.w.r.mu.Lock()
	r.c.Nexts++
	r.w.r.mu.Unlock()
	if next == nil {
		r.Response.Next(nil)
		return
	}
	r.Response.Next(wrapped{r: r.w.r, h: next, depth: r.w.depth + 1})
}

// Wrap wraps an entry handler.
func (r *Recorder) Wrap(h tq.Handler) tq.Handler { return wrapped{r: r, h: h} }

// SP wraps a secret provider so that every handler it hands out is wrapped.
func (r *Recorder) SP(sp tq.SecretProvider) tq.SecretProvider { return recSP{r: r, sp: sp} }

type recSP struct {
	r  *Recorder
	sp tq.SecretProvider
}

func (s recSP) Get(ctx context.Context, remote net.Addr) ([]byte, tq.Handler, error) {
	secret, h, err := s.sp.Get(ctx, remote)
	if h != nil {
		h = s.r.Wrap(h)
	}
	return secret, h, err
}
