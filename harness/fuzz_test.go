package harness

import (
	"testing"

	"verif/harness/model"

	"pgregory.net/rapid"
)

// Coverage-guided variants of checks whose input is, or is drawn from, a byte string (thorough tier).
// Every target carries the semantic oracle of its check, not only crash detection.

// FuzzC02DecodeFirst: any byte string, any of the nine codecs; what decodes must re-encode to bytes
// that decode to the same value.
func FuzzC02DecodeFirst(f *testing.F) {
	f.Add(model.EncodeHeader(model.Header{Version: 0xc1, Type: 1, Seq: 2, Flags: 1, Session: 77, Length: 5}), uint8(0))
	f.Add(append(model.EncodeHeader(model.Header{Version: 0xc0, Type: 2, Seq: 1, Session: 9, Length: 3}), 1, 2, 3), uint8(1))
	f.Add(model.AuthenStart{Action: 1, Priv: 1, AType: 2, Service: 1, User: b("alice"), Port: b("tty0"), RemAddr: b("r"), Data: b("pw")}.Encode(), uint8(2))
	f.Add(model.AuthenReply{Status: 5, Flags: 1, ServerMsg: b("Password:"), Data: b("d")}.Encode(), uint8(3))
	f.Add(model.AuthenContinue{Flags: 1, UserMsg: b("hunter2"), Data: b("d")}.Encode(), uint8(4))
	f.Add(model.AuthorRequest{Method: 6, Priv: 1, AType: 1, Service: 1, User: b("alice"), Args: []model.B{b("service=shell"), b("cmd=")}}.Encode(), uint8(5))
	f.Add(model.AuthorReply{Status: 1, ServerMsg: b("m"), Data: b("dd"), Args: []model.B{b("priv-lvl=15")}}.Encode(), uint8(6))
	f.Add(model.AcctRequest{Flags: 2, Method: 6, Priv: 1, AType: 1, Service: 1, User: b("alice"), Args: []model.B{b("task_id=1"), b("")}}.Encode(), uint8(7))
	f.Add(model.AcctReply{Status: 1, ServerMsg: b("ok"), Data: b("d")}.Encode(), uint8(8))
	f.Fuzz(func(t *testing.T, data []byte, which uint8) {
		c := &codecs[int(which)%len(codecs)]
		checkC02Decode(t, c, data, "fuzz")
	})
}

// FuzzC19Seen: the bytes a library-level server sees after removing its pad are the fuzz input; the
// independent length-consistency classifier says whether they must be refused as a key mismatch, must
// reach the handler, or are left open.
func FuzzC19Seen(f *testing.F) {
	f.Add(model.AuthenStart{Action: 1, Priv: 1, AType: 1, Service: 1, Port: b("tty0"), RemAddr: b("foo")}.Encode(), uint8(1), uint8(1), uint8(0), []byte("k"))
	f.Add(model.AuthenContinue{UserMsg: b("alice")}.Encode(), uint8(1), uint8(3), uint8(0), []byte("key"))
	f.Add(model.AuthorRequest{Method: 6, Priv: 1, AType: 1, Service: 1, User: b("alice"), Args: []model.B{b("service=shell"), b("cmd=show")}}.Encode(), uint8(2), uint8(1), uint8(4), []byte("key"))
	f.Add(model.AcctRequest{Flags: 2, Method: 6, Priv: 1, AType: 1, Service: 1, User: b("alice"), Args: []model.B{b("task_id=1")}}.Encode(), uint8(3), uint8(1), uint8(1), []byte(""))
	f.Add([]byte{0xff, 0, 0xff, 0, 0xff, 0, 0, 0, 0, 1, 2, 3}, uint8(3), uint8(5), uint8(0), []byte("s3cret"))
	f.Add([]byte{0x80, 0, 0x90, 0, 0xa0, 0, 0, 0, 1}, uint8(1), uint8(1), uint8(0), []byte("s3cret"))
	// near misses: well-formed requests that are one or two bytes short or long
	for typ, body := range map[uint8][]byte{
		1: model.AuthenStart{Action: 1, Priv: 1, AType: 2, Service: 1, User: b("alice"), Port: b("tty0"), RemAddr: b("r"), Data: b("pw")}.Encode(),
		2: model.AuthorRequest{Method: 6, Priv: 1, AType: 1, Service: 1, User: b("bob"), Port: b("p"), Args: []model.B{b("service=shell"), b("cmd=show"), b("cmd-arg=version")}}.Encode(),
		3: model.AcctRequest{Flags: 4, Method: 6, Priv: 1, AType: 1, Service: 1, User: b("carol"), Port: b("p"), RemAddr: b("r"), Args: []model.B{b("task_id=1"), b("elapsed_time=3"), b("x=y")}}.Encode(),
	} {
		f.Add(body[:len(body)-1], typ-1, uint8(1), uint8(0), []byte("k"))
		f.Add(body[:len(body)-2], typ-1, uint8(1), uint8(0), []byte("k"))
		f.Add(append(append([]byte{}, body...), 0), typ-1, uint8(1), uint8(0), []byte("k"))
	}
	f.Fuzz(func(t *testing.T, seen []byte, typ, seq, flags uint8, secret []byte) {
		if len(seen) > 4096 || len(secret) > 64 {
			t.Skip()
		}
		c := c19Case{ServerSecret: secret, ClientSecret: secret, Type: 1 + typ%3, Minor: flags >> 7, Seq: seq | 1,
			Flags: flags & 5, Session: uint32(len(seen))<<8 | uint32(typ), Mode: "seen", Bytes: seen}
		runC19(t, c)
	})
}

// FuzzC01Rapid / FuzzC02Rapid: the rapid properties of C01 and of C02's encode-first direction, with
// the generators' choices taken from the fuzzer's byte string (coverage feedback instead of a PRNG).
func FuzzC01Rapid(f *testing.F) {
	f.Fuzz(rapid.MakeFuzz(func(rt *rapid.T) {
		c := &codecs[rapid.IntRange(0, len(codecs)-1).Draw(rt, "codec")]
		checkC01(rt, c, c.gen(rt))
	}))
}

func FuzzC02Rapid(f *testing.F) {
	f.Fuzz(rapid.MakeFuzz(func(rt *rapid.T) {
		c := &codecs[rapid.IntRange(0, len(codecs)-1).Draw(rt, "codec")]
		m := c.gen(rt)
		label := "plain"
		switch rapid.IntRange(0, 3).Draw(rt, "variant") {
		case 1, 2:
			m, label = stretch(rt, m)
		case 3:
			m, label = spoil(rt, m)
		}
		checkC02Encode(rt, c, m, label)
	}))
}
