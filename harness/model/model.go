// Package model is an independent statement of the RFC 8907 wire format, written from the RFC text
// (see DESIGN.md §5c) and sharing nothing with the library under test except crypto/md5.
package model

import (
	"crypto/md5"
	"encoding/binary"
	"encoding/hex"
	"encoding/json"
)

// B is a byte string that serialises to hex in JSON so that cases stay replayable byte for byte.
type B []byte

func (b B) MarshalJSON() ([]byte, error) { return json.Marshal(hex.EncodeToString(b)) }
func (b *B) UnmarshalJSON(d []byte) error {
	var s string
	if err := json.Unmarshal(d, &s); err != nil {
		return err
	}
	v, err := hex.DecodeString(s)
	if err != nil {
		return err
	}
	*b = v
	return nil
}

const (
	TypeAuthen = 1
	TypeAuthor = 2
	TypeAcct   = 3

	FlagUnencrypted   = 0x01
	FlagSingleConnect = 0x04

	HeaderLen = 12
)

// Header is the 12 octet header.
type Header struct {
	Version byte   `json:"version"` // major<<4 | minor
	Type    byte   `json:"type"`
	Seq     byte   `json:"seq"`
	Flags   byte   `json:"flags"`
	Session uint32 `json:"session"`
	Length  uint32 `json:"length"`
}

func EncodeHeader(h Header) []byte {
	b := make([]byte, 12)
	b[0], b[1], b[2], b[3] = h.Version, h.Type, h.Seq, h.Flags
	binary.BigEndian.PutUint32(b[4:8], h.Session)
	binary.BigEndian.PutUint32(b[8:12], h.Length)
	return b
}

func DecodeHeader(b []byte) (Header, bool) {
	if len(b) < 12 {
		return Header{}, false
	}
	return Header{Version: b[0], Type: b[1], Seq: b[2], Flags: b[3],
		Session: binary.BigEndian.Uint32(b[4:8]), Length: binary.BigEndian.Uint32(b[8:12])}, true
}

type AuthenStart struct {
	Action  byte `json:"action"`
	Priv    byte `json:"priv"`
	AType   byte `json:"atype"`
	Service byte `json:"service"`
	User    B    `json:"user"`
	Port    B    `json:"port"`
	RemAddr B    `json:"rem_addr"`
	Data    B    `json:"data"`
}

type AuthenReply struct {
	Status    byte `json:"status"`
	Flags     byte `json:"flags"`
	ServerMsg B    `json:"server_msg"`
	Data      B    `json:"data"`
}

type AuthenContinue struct {
	Flags   byte `json:"flags"`
	UserMsg B    `json:"user_msg"`
	Data    B    `json:"data"`
}

type AuthorRequest struct {
	Method  byte `json:"method"`
	Priv    byte `json:"priv"`
	AType   byte `json:"atype"`
	Service byte `json:"service"`
	User    B    `json:"user"`
	Port    B    `json:"port"`
	RemAddr B    `json:"rem_addr"`
	Args    []B  `json:"args"`
}

type AuthorReply struct {
	Status    byte `json:"status"`
	ServerMsg B    `json:"server_msg"`
	Data      B    `json:"data"`
	Args      []B  `json:"args"`
}

type AcctRequest struct {
	Flags   byte `json:"flags"`
	Method  byte `json:"method"`
	Priv    byte `json:"priv"`
	AType   byte `json:"atype"`
	Service byte `json:"service"`
	User    B    `json:"user"`
	Port    B    `json:"port"`
	RemAddr B    `json:"rem_addr"`
	Args    []B  `json:"args"`
}

type AcctReply struct {
	Status    byte `json:"status"`
	ServerMsg B    `json:"server_msg"`
	Data      B    `json:"data"`
}

func u16(n int) []byte { return []byte{byte(n >> 8), byte(n)} }

func cat(parts ...[]byte) []byte {
	var out []byte
	for _, p := range parts {
		out = append(out, p...)
	}
	if out == nil {
		out = []byte{}
	}
	return out
}

func argLens(args []B) []byte {
	l := make([]byte, len(args))
	for i, a := range args {
		l[i] = byte(len(a))
	}
	return l
}

func argCat(args []B) []byte {
	var out []byte
	for _, a := range args {
		out = append(out, a...)
	}
	return out
}

// The Encode functions assume the value fits the wire widths (callers check Fits*).

func (a AuthenStart) Encode() []byte {
	return cat([]byte{a.Action, a.Priv, a.AType, a.Service, byte(len(a.User)), byte(len(a.Port)), byte(len(a.RemAddr)), byte(len(a.Data))},
		a.User, a.Port, a.RemAddr, a.Data)
}

func (a AuthenReply) Encode() []byte {
	return cat([]byte{a.Status, a.Flags}, u16(len(a.ServerMsg)), u16(len(a.Data)), a.ServerMsg, a.Data)
}

func (a AuthenContinue) Encode() []byte {
	return cat(u16(len(a.UserMsg)), u16(len(a.Data)), []byte{a.Flags}, a.UserMsg, a.Data)
}

func (a AuthorRequest) Encode() []byte {
	return cat([]byte{a.Method, a.Priv, a.AType, a.Service, byte(len(a.User)), byte(len(a.Port)), byte(len(a.RemAddr)), byte(len(a.Args))},
		argLens(a.Args), a.User, a.Port, a.RemAddr, argCat(a.Args))
}

func (a AuthorReply) Encode() []byte {
	return cat([]byte{a.Status, byte(len(a.Args))}, u16(len(a.ServerMsg)), u16(len(a.Data)), argLens(a.Args), a.ServerMsg, a.Data, argCat(a.Args))
}

func (a AcctRequest) Encode() []byte {
	return cat([]byte{a.Flags, a.Method, a.Priv, a.AType, a.Service, byte(len(a.User)), byte(len(a.Port)), byte(len(a.RemAddr)), byte(len(a.Args))},
		argLens(a.Args), a.User, a.Port, a.RemAddr, argCat(a.Args))
}

func (a AcctReply) Encode() []byte {
	return cat(u16(len(a.ServerMsg)), u16(len(a.Data)), []byte{a.Status}, a.ServerMsg, a.Data)
}

// reader consumes a byte string strictly: any attempt to read past the end marks it short.
type reader struct {
	b     []byte
	off   int
	short bool
}

func (r *reader) byte() byte {
	if r.off >= len(r.b) {
		r.short = true
		return 0
	}
	v := r.b[r.off]
	r.off++
	return v
}
func (r *reader) u16() int { hi := r.byte(); lo := r.byte(); return int(hi)<<8 | int(lo) }
func (r *reader) take(n int) B {
	if r.off+n > len(r.b) {
		r.short = true
		v := B(append([]byte{}, r.b[min(r.off, len(r.b)):]...))
		r.off = len(r.b)
		return v
	}
	v := B(append([]byte{}, r.b[r.off:r.off+n]...))
	r.off += n
	return v
}

func min(a, b int) int {
	if a < b {
		return a
	}
	return b
}

// Decode results: ok means every announced length was available.  exact means, in addition, that the
// announced lengths account for the whole input (what RFC 8907 requires of a well-formed body).

func DecodeAuthenStart(b []byte) (a AuthenStart, ok, exact bool) {
	r := &reader{b: b}
	a.Action, a.Priv, a.AType, a.Service = r.byte(), r.byte(), r.byte(), r.byte()
	ul, pl, rl, dl := int(r.byte()), int(r.byte()), int(r.byte()), int(r.byte())
	a.User, a.Port, a.RemAddr, a.Data = r.take(ul), r.take(pl), r.take(rl), r.take(dl)
	return a, !r.short, !r.short && r.off == len(b)
}

func DecodeAuthenReply(b []byte) (a AuthenReply, ok, exact bool) {
	r := &reader{b: b}
	a.Status, a.Flags = r.byte(), r.byte()
	sl, dl := r.u16(), r.u16()
	a.ServerMsg, a.Data = r.take(sl), r.take(dl)
	return a, !r.short, !r.short && r.off == len(b)
}

func DecodeAuthenContinue(b []byte) (a AuthenContinue, ok, exact bool) {
	r := &reader{b: b}
	ul, dl := r.u16(), r.u16()
	a.Flags = r.byte()
	a.UserMsg, a.Data = r.take(ul), r.take(dl)
	return a, !r.short, !r.short && r.off == len(b)
}

func DecodeAuthorRequest(b []byte) (a AuthorRequest, ok, exact bool) {
	r := &reader{b: b}
	a.Method, a.Priv, a.AType, a.Service = r.byte(), r.byte(), r.byte(), r.byte()
	ul, pl, rl, ac := int(r.byte()), int(r.byte()), int(r.byte()), int(r.byte())
	lens := make([]int, ac)
	for i := range lens {
		lens[i] = int(r.byte())
	}
	a.User, a.Port, a.RemAddr = r.take(ul), r.take(pl), r.take(rl)
	a.Args = make([]B, ac)
	for i, n := range lens {
		a.Args[i] = r.take(n)
	}
	return a, !r.short, !r.short && r.off == len(b)
}

func DecodeAuthorReply(b []byte) (a AuthorReply, ok, exact bool) {
	r := &reader{b: b}
	a.Status = r.byte()
	ac := int(r.byte())
	sl, dl := r.u16(), r.u16()
	lens := make([]int, ac)
	for i := range lens {
		lens[i] = int(r.byte())
	}
	a.ServerMsg, a.Data = r.take(sl), r.take(dl)
	a.Args = make([]B, ac)
	for i, n := range lens {
		a.Args[i] = r.take(n)
	}
	return a, !r.short, !r.short && r.off == len(b)
}

func DecodeAcctRequest(b []byte) (a AcctRequest, ok, exact bool) {
	r := &reader{b: b}
	a.Flags, a.Method, a.Priv, a.AType, a.Service = r.byte(), r.byte(), r.byte(), r.byte(), r.byte()
	ul, pl, rl, ac := int(r.byte()), int(r.byte()), int(r.byte()), int(r.byte())
	lens := make([]int, ac)
	for i := range lens {
		lens[i] = int(r.byte())
	}
	a.User, a.Port, a.RemAddr = r.take(ul), r.take(pl), r.take(rl)
	a.Args = make([]B, ac)
	for i, n := range lens {
		a.Args[i] = r.take(n)
	}
	return a, !r.short, !r.short && r.off == len(b)
}

func DecodeAcctReply(b []byte) (a AcctReply, ok, exact bool) {
	r := &reader{b: b}
	sl, dl := r.u16(), r.u16()
	a.Status = r.byte()
	a.ServerMsg, a.Data = r.take(sl), r.take(dl)
	return a, !r.short, !r.short && r.off == len(b)
}

// Pad is the RFC 8907 §4.5 pseudo-random pad of n octets.
func Pad(secret []byte, session uint32, version, seq byte, n int) []byte {
	var sid [4]byte
	binary.BigEndian.PutUint32(sid[:], session)
	base := cat(sid[:], secret, []byte{version, seq})
	pad := make([]byte, 0, n+16)
	var prev []byte
	for len(pad) < n {
		sum := md5.Sum(cat(base, prev))
		prev = sum[:]
		pad = append(pad, prev...)
	}
	return pad[:n]
}

// Obfuscate XORs body with the pad (its own inverse).
func Obfuscate(secret []byte, h Header, body []byte) []byte {
	out := make([]byte, len(body))
	pad := Pad(secret, h.Session, h.Version, h.Seq, len(body))
	for i := range body {
		out[i] = body[i] ^ pad[i]
	}
	return out
}

// Frame builds the bytes on the wire for a cleartext body: header (length set) + body, obfuscated
// unless the unencrypted flag is set in h.
func Frame(secret []byte, h Header, clear []byte) []byte {
	h.Length = uint32(len(clear))
	body := clear
	if h.Flags&FlagUnencrypted == 0 {
		body = Obfuscate(secret, h, clear)
	}
	return cat(EncodeHeader(h), body)
}

// Packet is a framed packet as split from a byte stream.
type Packet struct {
	H    Header `json:"h"`
	Body B      `json:"body"` // as on the wire
}

// Clear returns the cleartext body under secret.
func (p Packet) Clear(secret []byte) []byte {
	if p.H.Flags&FlagUnencrypted != 0 {
		return append([]byte{}, p.Body...)
	}
	return Obfuscate(secret, p.H, p.Body)
}

// SplitStream cuts a byte stream into packets by the header length field.  rest is what follows the
// last complete packet.
func SplitStream(b []byte) (pkts []Packet, rest []byte) {
	for {
		h, ok := DecodeHeader(b)
		if !ok || uint64(len(b)-12) < uint64(h.Length) {
			return pkts, b
		}
		pkts = append(pkts, Packet{H: h, Body: B(append([]byte{}, b[12:12+int(h.Length)]...))})
		b = b[12+int(h.Length):]
	}
}

// Class of a deobfuscated body with respect to the length-consistency rule (C19).
type Class int

const (
	Grey       Class = iota // too short for a layout, or mixed
	Mismatch                // every layout of the type has readable length octets that announce more than is there... or less
	WellFormed              // some request layout of the type accounts exactly for the bytes
)

// layoutFit says, for one layout, whether the fixed part is present (fixed), and whether the declared
// lengths are consistent with the bytes available: 0 exact, +1 declared more than available, -1 less.
type layoutFit struct {
	fixed bool
	cmp   int
}

func fit(total, declared int) int {
	switch {
	case declared > total:
		return 1
	case declared < total:
		return -1
	}
	return 0
}

func fitAuthenStart(b []byte) layoutFit {
	if len(b) < 8 {
		return layoutFit{}
	}
	return layoutFit{true, fit(len(b)-8, int(b[4])+int(b[5])+int(b[6])+int(b[7]))}
}
func fitAuthenReply(b []byte) layoutFit {
	if len(b) < 6 {
		return layoutFit{}
	}
	return layoutFit{true, fit(len(b)-6, int(b[2])<<8+int(b[3])+int(b[4])<<8+int(b[5]))}
}
func fitAuthenContinue(b []byte) layoutFit {
	if len(b) < 5 {
		return layoutFit{}
	}
	return layoutFit{true, fit(len(b)-5, int(b[0])<<8+int(b[1])+int(b[2])<<8+int(b[3]))}
}
func fitArgs(b []byte, fixedLen, argCntOff int, base int) layoutFit {
	if len(b) < fixedLen {
		return layoutFit{}
	}
	ac := int(b[argCntOff])
	if len(b) < fixedLen+ac {
		// the argument length octets themselves are not all readable: treated as undecidable
		// (GREY) rather than guessed, see DESIGN.md C19
		return layoutFit{}
	}
	sum := base
	for i := 0; i < ac; i++ {
		sum += int(b[fixedLen+i])
	}
	return layoutFit{true, fit(len(b)-fixedLen-ac, sum)}
}
func fitAuthorRequest(b []byte) layoutFit {
	if len(b) < 8 {
		return layoutFit{}
	}
	return fitArgs(b, 8, 7, int(b[4])+int(b[5])+int(b[6]))
}
func fitAuthorReply(b []byte) layoutFit {
	if len(b) < 6 {
		return layoutFit{}
	}
	return fitArgs(b, 6, 1, int(b[2])<<8+int(b[3])+int(b[4])<<8+int(b[5]))
}
func fitAcctRequest(b []byte) layoutFit {
	if len(b) < 9 {
		return layoutFit{}
	}
	return fitArgs(b, 9, 8, int(b[5])+int(b[6])+int(b[7]))
}
func fitAcctReply(b []byte) layoutFit {
	if len(b) < 5 {
		return layoutFit{}
	}
	return layoutFit{true, fit(len(b)-5, int(b[0])<<8+int(b[1])+int(b[2])<<8+int(b[3]))}
}

// Fits returns the per-layout fits for a packet type (request layout first).
func Fits(typ byte, b []byte) []layoutFit {
	switch typ {
	case TypeAuthen:
		return []layoutFit{fitAuthenStart(b), fitAuthenContinue(b), fitAuthenReply(b)}
	case TypeAuthor:
		return []layoutFit{fitAuthorRequest(b), fitAuthorReply(b)}
	case TypeAcct:
		return []layoutFit{fitAcctRequest(b), fitAcctReply(b)}
	}
	return nil
}

// Classify evaluates the statement of C19 on the bytes the server sees after deobfuscation:
// Mismatch iff for every layout of the type the fixed part is present and the declared lengths
// exceed the bytes available (the signature a wrong key produces with overwhelming probability);
// WellFormed iff a *request* layout accounts exactly for the bytes; otherwise Grey.
func Classify(typ byte, b []byte) Class {
	fs := Fits(typ, b)
	if len(fs) == 0 {
		return Grey
	}
	nreq := 1
	if typ == TypeAuthen {
		nreq = 2
	}
	for i := 0; i < nreq; i++ {
		if fs[i].fixed && fs[i].cmp == 0 {
			return WellFormed
		}
	}
	all := true
	for _, f := range fs {
		if !(f.fixed && f.cmp > 0) {
			all = false
		}
	}
	if all {
		return Mismatch
	}
	return Grey
}
