package harness

import (
	"context"
	"fmt"
	"os"
	"sync"
	"testing"
	"time"

	"verif/harness/cfggen"
	"verif/harness/ev"
	"verif/harness/model"

	"pgregory.net/rapid"
)

// C10 — authentication passes only for a known user presenting that user's password; every
// well-formed correct ASCII or PAP login passes.

type c10Case struct {
	World   cfggen.World `json:"world"`
	Format  string       `json:"format"`
	Scope   string       `json:"scope"`
	Scripts []authScript `json:"scripts"`
	Order   []int        `json:"order"` // which script sends its next packet, step by step
	// Then, if set: this configuration is loaded into the running server after the history above, and a
	// second history runs on a new connection and is judged by it (a password changed by a reload, a user
	// moved to another scope, an authenticator removed: what held before the reload must not stick)
	Then *c10Phase `json:"then,omitempty"`
}

type c10Phase struct {
	World   cfggen.World `json:"world"`
	Scope   string       `json:"scope"`
	Scripts []authScript `json:"scripts"`
	Order   []int        `json:"order"`
}

// swapKeychain is a keychain whose content is replaced when the configuration is.
type swapKeychain struct {
	mu sync.RWMutex
	m  map[string][]byte
}

func (k *swapKeychain) set(m map[string][]byte) { k.mu.Lock(); k.m = m; k.mu.Unlock() }
func (k *swapKeychain) GetSecret(ctx context.Context, name, group string) ([]byte, error) {
	k.mu.RLock()
	defer k.mu.RUnlock()
	if h, ok := k.m[name]; ok {
		return h, nil
	}
	return nil, fmt.Errorf("no keychain entry for %q", name)
}

func genAuthHistory(t *rapid.T, w cfggen.World, scope string, maxScripts int) ([]authScript, []int) {
	n := rapid.IntRange(1, maxScripts).Draw(t, "nscripts")
	var scripts []authScript
	total := 0
	for i := 0; i < n; i++ {
		sc := genAuthScript(t, w, scope, uint32(0x1000+i))
		scripts = append(scripts, sc)
		total += len(sc.Pkts)
	}
	// sometimes one more login reuses the session id of an earlier script after that one is over
	var late *authScript
	if rapid.Bool().Draw(t, "reuse_session") {
		i := rapid.IntRange(0, n-1).Draw(t, "reuse_of")
		sc, ok := genCleanLogin(t, w, scope, scripts[i].Session)
		if !ok || rapid.IntRange(0, 3).Draw(t, "late_any_flavour") == 0 {
			sc = genAuthScript(t, w, scope, scripts[i].Session)
		}
		sc.After = i + 1
		late = &sc
	}
	var order []int
	left := make([]int, n)
	for i := range left {
		left[i] = len(scripts[i].Pkts)
	}
	for len(order) < total {
		i := rapid.IntRange(0, n-1).Draw(t, "turn")
		for left[i] == 0 {
			i = (i + 1) % n
		}
		left[i]--
		order = append(order, i)
	}
	if late != nil {
		// its turns go anywhere in the order; at run time a turn that comes before the earlier session
		// is over is postponed, and once the id has been taken over the earlier script stops
		scripts = append(scripts, *late)
		for range late.Pkts {
			pos := rapid.IntRange(0, len(order)).Draw(t, "late_turn")
			order = append(order[:pos], append([]int{len(scripts) - 1}, order[pos:]...)...)
		}
	}
	return scripts, order
}

func pickServingScope(t *rapid.T, w cfggen.World) string {
	scope := rapid.SampledFrom([]string{cfggen.ScopeA, cfggen.ScopeA, cfggen.ScopeB}).Draw(t, "scope")
	if len(w.Cfg.ScopeUsers(scope)) == 0 {
		scope = cfggen.ScopeA
	}
	return scope
}

func genC10(t *rapid.T) c10Case {
	c := c10Case{World: cfggen.GenWorld(t), Format: rapid.SampledFrom([]string{"yaml", "yaml", "json"}).Draw(t, "format")}
	c.Scope = pickServingScope(t, c.World)
	c.Scripts, c.Order = genAuthHistory(t, c.World, c.Scope, 3)
	if rapid.IntRange(0, 2).Draw(t, "then_reload") == 0 {
		ph := c10Phase{World: cfggen.GenWorld(t)}
		ph.Scope = pickServingScope(t, ph.World)
		ph.Scripts, ph.Order = genAuthHistory(t, ph.World, ph.Scope, 3)
		c.Then = &ph
	}
	return c
}

func scopeKey(scope string) []byte {
	if scope == cfggen.ScopeB {
		return []byte(cfggen.KeyB)
	}
	return []byte(cfggen.KeyA)
}

func runC10(t failer, c c10Case) (events []authEvent) {
	ev.Eval()
	journal("C10", c)
	c.World.Cfg.Restore()
	fail := func(sig, format string, args ...interface{}) {
		violation(t, "C10", "authen", "C10:"+sig, c, format, args...)
	}
	kc := &swapKeychain{m: c.World.KeychainBytes()}
	env, err := startRef(c.World.Cfg, refOpts{format: c.Format, keychain: kc, recover: true})
	if err != nil {
		ev.Class("config-refused")
		return nil
	}
	defer func() {
		if e := env.stop(); e != nil {
			t.Fatalf("%v", e)
		}
	}()
	runPhase := func(phase int, w cfggen.World, scope string, scripts []authScript, ord []int) {
		d, err := env.dial(cfggen.AddrIn(scope, 9).IP(), 4242+phase)
		if err != nil {
			t.Fatalf("%v", err)
		}
		if d.c.Closed() {
			if phase > 0 {
				ev.Class("scope-does-not-serve-after-reload")
				return
			}
			// the scope has users (the generator picks it that way) and a standard secret configuration:
			// a server that refuses its clients outright lets no correct login pass
			fail("correct-login-not-passed", "the connection from scope %s, which has users, was refused before any login could be made", scope)
		}
		r := newAuthRunner(d, scopeKey(scope), scripts)
		exp := make([][]byte, len(scripts))
		sound := make([]*authSound, len(scripts))
		for i, sc := range scripts {
			exp[i] = destined(w, scope, sc)
			sound[i] = newAuthSound()
		}
		over := make([]bool, len(scripts)) // the script's session is over on the server (final status seen last)
		order := append([]int{}, ord...)
		postponed := 0
		for k := 0; k < len(order); k++ {
			i := order[k]
			pktIdx := r.next[i]
			if pktIdx >= len(scripts[i].Pkts) {
				continue
			}
			if a := scripts[i].After; a > 0 && pktIdx == 0 {
				if !over[a-1] {
					// the session whose id would be reused is still waiting for a continuation (reusing
					// the id now would be a sequence violation, not this property's business): try again
					// at the end, a bounded number of times
					if postponed++; postponed <= 2*len(ord) && r.next[a-1] < len(scripts[a-1].Pkts) {
						order = append(order, i)
					}
					continue
				}
				r.next[a-1] = len(scripts[a-1].Pkts) // the id now belongs to this script
			}
			justified := sound[i].passJustified(w, scope, scripts[i].Pkts[pktIdx])
			e, ok, err := r.step(i)
			if err != nil {
				t.Fatalf("%v", err)
			}
			if !ok {
				continue
			}
			events = append(events, e)
			if e.Status == stPass && !justified {
				fail("unjustified-pass", "script %d (%s) packet %d answered PASS, but the session did not present a verifying password of a user of scope %s by a supported method", i, scripts[i].Flavour, pktIdx, scope)
			}
			if exp[i] != nil {
				if e.Replies != 1 || e.Status != exp[i][pktIdx] {
					fail("correct-login-not-passed", "script %d (%s): a well-formed login with the right password must be answered %v; packet %d got %d replies, status %d (%q)", i, scripts[i].Flavour, exp[i], pktIdx, e.Replies, e.Status, e.Msg)
				}
			}
			over[i] = e.Replies == 1 && finalStatus(e.Status)
			if e.Replies != 1 || finalStatus(e.Status) {
				sound[i] = newAuthSound()
			}
		}
	}
	runPhase(0, c.World, c.Scope, c.Scripts, c.Order)
	if c.Then != nil {
		c.Then.World.Cfg.Restore()
		doc := c.Then.World.Cfg.YAML()
		if c.Format == "json" {
			doc = c.Then.World.Cfg.JSON()
		}
		kc.set(c.Then.World.KeychainBytes())
		if err := env.stack.Reload(doc); err != nil {
			ev.Class("reload-refused")
			return events
		}
		ev.Class("second-history-after-reload")
		runPhase(1, c.Then.World, c.Then.Scope, c.Then.Scripts, c.Then.Order)
	}
	return events
}

func classifyC10(c c10Case, events []authEvent) {
	nt := false
	for _, sc := range c.Scripts {
		ev.Class("flavour:" + sc.Flavour)
		if d := destined(c.World, c.Scope, sc); d != nil {
			ev.Class("destined-to-pass")
		}
		if sc.Flavour == "misplaced" || sc.Flavour == "raw" || sc.Flavour == "odd-start" {
			nt = true
		}
		if len(sc.Pkts) > 0 && sc.Pkts[0].Kind == "start" {
			s := sc.Pkts[0].Start
			if len(s.Port) == 127 && len(s.RemAddr) == 127 && len(s.User) > 128 {
				ev.Class("start-with-max-ascii-fields")
			}
			// same user name configured in both scopes
			if _, a := c.World.Cfg.ScopeUsers(cfggen.ScopeA)[string(s.User)]; a {
				if _, b := c.World.Cfg.ScopeUsers(cfggen.ScopeB)[string(s.User)]; b {
					ev.Class("user-in-both-scopes")
					nt = true
				}
			}
		}
	}
	for _, e := range events {
		switch e.Status {
		case stPass:
			ev.Class("reply:PASS")
		case stGetPass:
			ev.Class("reply:GETPASS")
			nt = true // the history reaches a password step
		case stFail:
			ev.Class("reply:FAIL")
		case stError:
			ev.Class("reply:ERROR")
		case stGetUser:
			ev.Class("reply:GETUSER")
		}
	}
	ev.Class("format:" + c.Format)
	if len(c.Scripts) > 1 {
		ev.Class("interleaved-sessions")
	}
	for _, sc := range c.Scripts {
		if sc.After > 0 {
			ev.Class("session-id-reused-after-finish")
			nt = true
		}
	}
	if nt {
		ev.NonTrivial("c10", c)
	}
}

func TestC10(t *testing.T) {
	rapid.Check(t, func(rt *rapid.T) {
		c := genC10(rt)
		events := runC10(rt, c)
		classifyC10(c, events)
	})
}

func TestC10Regress(t *testing.T) {
	for _, s := range loadSaved(t, "C10") {
		var probe struct {
			Flow   string `json:"flow"`
			Cancel int    `json:"cancel_after_ms"`
			Right  bool   `json:"right_password"`
			Conc   int    `json:"concurrent_logins"`
			Large  bool   `json:"large_document"`
			Cred   bool   `json:"credential_changes"`
		}
		mustUnmarshal(t, s, &probe)
		if probe.Conc > 0 {
			runC10Concurrent(t)
			continue
		}
		if probe.Large {
			runC10Large(t)
			continue
		}
		if probe.Cred {
			runC10Credentials(t)
			continue
		}
		if probe.Flow != "" {
			runC10Cancel(t, probe.Flow, probe.Cancel, probe.Right)
			continue
		}
		var c c10Case
		mustUnmarshal(t, s, &c)
		runC10(t, c)
	}
}

// TestC10EnumCancelDuringLogin: the server's context is cancelled while the password of a login is being
// checked (a hash of work factor 12, a third of a second per check; cancellation 20, 60 and 150 ms after the
// packet went in).  Whatever the shutdown does to the exchange, a wrong password is never answered PASS.
func TestC10EnumCancelDuringLogin(t *testing.T) {
	for _, flow := range []string{"pap", "ascii"} {
		for _, delay := range []int{20, 60, 150} {
			for _, right := range []bool{false, true} {
				runC10Cancel(t, flow, delay, right)
			}
		}
	}
}

func runC10Cancel(t failer, flow string, delay int, right bool) {
	ev.Eval()
	var w cfggen.World
	w.Keychain = map[string]string{}
	w.Cfg.Secrets = []cfggen.Secret{cfggen.NewSecret(cfggen.ScopeA, cfggen.KeyA, cfggen.PrefixA)}
	w.Cfg.Users = []cfggen.User{{Name: "alice", Scopes: []string{cfggen.ScopeA}, Authenticator: &cfggen.Authenticator{Type: cfggen.AuthnBcrypt, Options: map[string]string{"hash": c07CostHashes[12]}}}}
	cse := map[string]interface{}{"world": w, "flow": flow, "cancel_after_ms": delay, "right_password": right}
	journal("C10", cse)
	env, err := startRef(w.Cfg, refOpts{recover: true})
	if err != nil {
		t.Fatalf("HARNESS-BUG: %v", err)
	}
	d, err := env.dial(cfggen.AddrIn(cfggen.ScopeA, 9).IP(), 4300)
	if err != nil {
		t.Fatalf("%v", err)
	}
	key := []byte(cfggen.KeyA)
	pw := "pw-bravo"
	if right {
		pw = "pw-alpha"
	}
	var wire []byte
	if flow == "pap" {
		wire = model.Frame(key, model.Header{Version: 0xc1, Type: 1, Seq: 1, Session: 77}, model.AuthenStart{Action: 1, Priv: 1, AType: 2, Service: 1, User: b("alice"), Port: b("tty0"), RemAddr: b("r"), Data: b(pw)}.Encode())
	} else {
		if _, _, _, err := d.send(model.Frame(key, model.Header{Version: 0xc0, Type: 1, Seq: 1, Session: 77}, model.AuthenStart{Action: 1, Priv: 1, AType: 1, Service: 1, User: b("alice"), Port: b("tty0"), RemAddr: b("r")}.Encode())); err != nil {
			t.Fatalf("%v", err)
		}
		wire = model.Frame(key, model.Header{Version: 0xc0, Type: 1, Seq: 3, Session: 77}, model.AuthenContinue{UserMsg: b(pw)}.Encode())
	}
	d.c.Feed(wire)
	time.Sleep(time.Duration(delay) * time.Millisecond)
	env.srv.cancel()
	env.srv.ln.Kick()
	pkts, _, _, err := d.collect()
	if err != nil {
		t.Fatalf("%v", err)
	}
	for _, p := range pkts {
		if r, ok, _ := model.DecodeAuthenReply(p.Clear(key)); ok && r.Status == stPass && !right {
			violation(t, "C10", "authen", "C10:unjustified-pass", cse, "%s login with a wrong password, server context cancelled %d ms after the packet went in: answered PASS", flow, delay)
		}
	}
	ev.Class("cancelled-while-the-password-is-checked:" + flow)
	ev.NonTrivial("cancel-during-login", cse)
	if e := env.stop(); e != nil {
		t.Fatalf("%v", e)
	}
}

// TestC10EnumLargeDocument: configurations with thousands of users (documents of several megabytes), in
// both formats, loaded from a file as the server does at start; users at the beginning, in the middle
// and at the very end of the document log in with the right and with a wrong password.
func TestC10EnumLargeDocument(t *testing.T) { runC10Large(t) }

func runC10Large(t failer) {
	for _, format := range []string{"yaml", "json"} {
		for _, viaFile := range []bool{true, false} {
			ev.Eval()
			var w cfggen.World
			w.Keychain = map[string]string{}
			w.Cfg.Secrets = []cfggen.Secret{cfggen.NewSecret(cfggen.ScopeA, cfggen.KeyA, cfggen.PrefixA)}
			n := 12000
			pwOf := func(i int) string { return []string{"pw-alpha", "pw-bravo", "pw-charlie"}[i%3] }
			grp := cfggen.Group{Name: "everyone", Authenticator: cfggen.BcryptAuth("pw-delta"), Commands: []cfggen.Command{{Name: "show", Match: []string{"version", "clock", "interfaces .*"}, Action: cfggen.ActionPermit}}}
			for i := 0; i < n; i++ {
				w.Cfg.Users = append(w.Cfg.Users, cfggen.User{Name: fmt.Sprintf("user%05d", i), Scopes: []string{cfggen.ScopeA}, Groups: []cfggen.Group{grp}, Authenticator: cfggen.BcryptAuth(pwOf(i))})
			}
			cse := map[string]interface{}{"large_document": true, "format": format, "users": n, "via_file": viaFile}
			journal("C10", cse)
			env, err := startRef(w.Cfg, refOpts{format: format, recover: true, quiet: true, viaFile: viaFile})
			if err != nil {
				t.Fatalf("HARNESS-BUG: %v", err)
			}
			d, err := env.dial(cfggen.AddrIn(cfggen.ScopeA, 9).IP(), 4400)
			if err != nil {
				t.Fatalf("%v", err)
			}
			key := []byte(cfggen.KeyA)
			sess := uint32(1)
			for _, i := range []int{0, 1, n / 3, n / 2, 2 * n / 3, n - 2, n - 1} {
				for _, right := range []bool{true, false} {
					pw := pwOf(i)
					if !right {
						pw = "pw-delta" // the group's password: the user's own authenticator takes precedence
					}
					sess++
					st, _, _, err := papLogin(d, key, sess, fmt.Sprintf("user%05d", i), pw)
					if err != nil {
						t.Fatalf("%v", err)
					}
					switch {
					case right && st != stPass:
						violation(t, "C10", "authen", "C10:correct-login-not-passed", cse, "user%05d of %d (a %s document loaded %s) presents the right password and is answered status %d", i, n, format, map[bool]string{true: "from a file", false: "through Unmarshal"}[viaFile], st)
					case !right && st == stPass:
						violation(t, "C10", "authen", "C10:unjustified-pass", cse, "user%05d of %d (a %s document loaded %s) presents his group's password, which his own authenticator does not verify, and is answered PASS", i, n, format, map[bool]string{true: "from a file", false: "through Unmarshal"}[viaFile])
					}
				}
			}
			if e := env.stop(); e != nil {
				t.Fatalf("%v", e)
			}
			ev.Class("document-of-megabytes:" + format)
			ev.NonTrivial("large-document", cse)
		}
	}
}

// TestC10EnumCredentialChanges: one user name, several credentials over time and place - alice in scope A and
// alice in scope B with different passwords, from the hash option and from the keychain; then a reload that
// gives alice another password.  After a login has passed somewhere, the same password presented where (or
// when) it is not alice's must still fail.  Deterministic.
func TestC10EnumCredentialChanges(t *testing.T) { runC10Credentials(t) }

func runC10Credentials(t failer) {
	for _, viaKeychain := range []bool{false, true} {
		for _, format := range []string{"yaml", "json"} {
			ev.Eval()
			auth := func(name, pw string, kc map[string]string) *cfggen.Authenticator {
				if viaKeychain {
					kc[name] = cfggen.Hashes[pw]
					return &cfggen.Authenticator{Type: cfggen.AuthnBcrypt, Options: map[string]string{"key": name, "group": "g"}}
				}
				return cfggen.BcryptAuth(pw)
			}
			mk := func(pwA, pwB string) cfggen.World {
				var w cfggen.World
				w.Keychain = map[string]string{}
				w.Cfg.Secrets = []cfggen.Secret{cfggen.NewSecret(cfggen.ScopeA, cfggen.KeyA, cfggen.PrefixA), cfggen.NewSecret(cfggen.ScopeB, cfggen.KeyB, cfggen.PrefixB)}
				w.Cfg.Users = []cfggen.User{
					{Name: "alice", Scopes: []string{cfggen.ScopeA}, Authenticator: auth("alice", pwA, w.Keychain)},
					{Name: "alice", Scopes: []string{cfggen.ScopeB}, Authenticator: auth("alice", pwB, w.Keychain)},
				}
				return w
			}
			w1, w2 := mk("pw-alpha", "pw-bravo"), mk("pw-charlie", "pw-alpha")
			cse := map[string]interface{}{"credential_changes": true, "format": format, "via_keychain": viaKeychain}
			journal("C10", cse)
			kc := &swapKeychain{m: w1.KeychainBytes()}
			env, err := startRef(w1.Cfg, refOpts{format: format, keychain: kc, recover: true})
			if err != nil {
				t.Fatalf("HARNESS-BUG: %v", err)
			}
			sess := uint32(40)
			cur := w1
			try := func(when, scope, pw string, _ bool) {
				// what the password is worth is the model's to say (the keychain is asked for the user's
				// name, so with the keychain variant both entries called alice share one credential)
				want := cur.Cfg.ScopeUsers(scope)["alice"].Verifies(pw, cur.KeychainBytes())
				d, err := env.dial(cfggen.AddrIn(scope, 33).IP(), 4500+int(sess))
				if err != nil {
					t.Fatalf("%v", err)
				}
				for _, flow := range []string{"pap", "ascii"} {
					sess++
					var st byte
					if flow == "pap" {
						st, _, _, err = papLogin(d, scopeKey(scope), sess, "alice", pw)
					} else {
						key := scopeKey(scope)
						if _, _, _, err = d.send(model.Frame(key, model.Header{Version: 0xc0, Type: 1, Seq: 1, Session: sess}, model.AuthenStart{Action: 1, Priv: 1, AType: 1, Service: 1, User: b("alice"), Port: b("tty0"), RemAddr: b("r")}.Encode())); err == nil {
							var pk []model.Packet
							pk, _, _, err = d.send(model.Frame(key, model.Header{Version: 0xc0, Type: 1, Seq: 3, Session: sess}, model.AuthenContinue{UserMsg: b(pw)}.Encode()))
							if len(pk) == 1 {
								if r, ok, _ := model.DecodeAuthenReply(pk[0].Clear(key)); ok {
									st = r.Status
								}
							}
						}
					}
					if err != nil {
						t.Fatalf("%v", err)
					}
					if os.Getenv("VERIF_DEBUG") != "" {
						fmt.Printf("DEBUG kc=%v %s %s %s %s want=%v st=%d\n", viaKeychain, format, when, scope, pw, want, st)
					}
					switch {
					case want && st != stPass:
						violation(t, "C10", "authen", "C10:correct-login-not-passed", cse, "%s: alice in scope %s presents her password there (%s, %s) and is answered status %d", when, scope, pw, flow, st)
					case !want && st == stPass:
						violation(t, "C10", "authen", "C10:unjustified-pass", cse, "%s: alice in scope %s presents %s (%s), which is not her password there and then, and is answered PASS", when, scope, pw, flow)
					}
				}
			}
			try("at start", cfggen.ScopeA, "pw-alpha", true)
			try("after alice passed in scope A", cfggen.ScopeB, "pw-alpha", false)
			try("at start", cfggen.ScopeB, "pw-bravo", true)
			try("after alice passed in scope B", cfggen.ScopeA, "pw-bravo", false)
			kc.set(w2.KeychainBytes())
			cur = w2
			doc := w2.Cfg.YAML()
			if format == "json" {
				doc = w2.Cfg.JSON()
			}
			if err := env.stack.Reload(doc); err != nil {
				t.Fatalf("HARNESS-BUG: %v", err)
			}
			try("after a reload that changed her password", cfggen.ScopeA, "pw-alpha", false)
			try("after a reload that changed her password", cfggen.ScopeA, "pw-charlie", true)
			try("after the reload", cfggen.ScopeB, "pw-bravo", false)
			try("after the reload", cfggen.ScopeB, "pw-alpha", true)
			if e := env.stop(); e != nil {
				t.Fatalf("%v", e)
			}
			ev.Class("one-name-several-credentials")
			ev.NonTrivial("credential-changes", cse)
		}
	}
}
