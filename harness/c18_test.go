package harness

import (
	"context"
	"fmt"
	"os"
	"path/filepath"
	"strings"
	"testing"
	"time"

	"github.com/facebookincubator/tacquito/cmds/server/config"
	"github.com/facebookincubator/tacquito/cmds/server/loader/fsnotify"
	jsonl "github.com/facebookincubator/tacquito/cmds/server/loader/json"
	yamll "github.com/facebookincubator/tacquito/cmds/server/loader/yaml"

	"verif/harness/cfggen"
	"verif/harness/ev"
	"verif/harness/model"
	"verif/harness/refsrv"

	"pgregory.net/rapid"
)

// C18 — the cleartext password of a PAP or ASCII login and the shared secret never reach the logs.

type c18Case struct {
	World   cfggen.World `json:"world"`
	Scope   string       `json:"scope"`
	Key     string       `json:"key"` // unique shared secret of the scope the connection comes from
	Scripts []authScript `json:"scripts"`
	Order   []int        `json:"order"`
	// Level, if not 0: the calls also go to the reference logger (cmds/server/log) at this level and
	// what it writes is searched too
	Level int `json:"level,omitempty"`
	// Broken, if not empty: the configuration has a third secret configuration whose "prefixes" option is
	// this (unusable) text
	Broken string `json:"broken,omitempty"`
}

func genC18(t *rapid.T) c18Case {
	c := c18Case{World: cfggen.GenWorld(t)}
	drawExtraKeys(t, &c.World.Cfg)
	c.Scope = pickServingScope(t, c.World)
	c.Key = "K3y" + rapid.StringMatching(`[A-Za-z0-9]{16}`).Draw(t, "key_token")
	c.Scripts, c.Order = genAuthHistory(t, c.World, c.Scope, 3)
	c.Level = rapid.SampledFrom([]int{0, 10, 20, 30, 30, 31, 100}).Draw(t, "log_level")
	c.Broken = rapid.SampledFrom([]string{"", "", "", "not json", "[\"10.7.0.0/16\", ]", "[]", "[\"10.7.0.0/16\", \"10.20.30.40\"]", "[\"not-a-prefix\", \"10.7.0.0/16\"]"}).Draw(t, "broken_scope")
	// make every presented password a searchable token: wrong passwords become unique strings
	for i := range c.Scripts {
		for j := range c.Scripts[i].Pkts {
			p := &c.Scripts[i].Pkts[j]
			uniq := "T0k" + rapid.StringMatching(`[A-Za-z0-9]{16}`).Draw(t, "pw_token")
			if rapid.IntRange(0, 3).Draw(t, "non_ascii_password") == 0 {
				// a password outside US-ASCII (UTF-8, or a stray high byte): takes the decoders' error paths
				uniq += rapid.SampledFrom([]string{"\xc3\xa9", "\xff", "\xe2\x82\xac9"}).Draw(t, "pw_suffix")
			}
			switch {
			case p.Kind == "start" && p.Start.AType == 2 && !searchable(string(p.Start.Data)) && len(p.Start.Data) > 0:
				p.Start.Data = []byte(uniq)
			case p.Kind == "continue" && j > 0 && !searchable(string(p.Cont.UserMsg)) && len(p.Cont.UserMsg) > 0 && rapid.Bool().Draw(t, "tokenise"):
				// only CONTINUEs that are not user names: the last packet of an ASCII flow
				if j == len(c.Scripts[i].Pkts)-1 {
					p.Cont.UserMsg = []byte(uniq)
				}
			}
		}
	}
	return c
}

// searchable: long and distinctive enough not to occur in log text by accident.
func searchable(s string) bool {
	return len(s) >= 8 && s != "password" && !strings.Contains("unknown username or password", s)
}

func (c c18Case) world() cfggen.World {
	w := c.World
	w.Cfg = w.Cfg.Clone()
	for i := range w.Cfg.Secrets {
		if w.Cfg.Secrets[i].Name == c.Scope {
			w.Cfg.Secrets[i].Secret.Key = c.Key
		}
	}
	if c.Broken != "" {
		// a third secret configuration with a key of its own that cannot be served (its prefix option is
		// no usable list) although a user is assigned to it: what the loader says about it must not
		// contain its key
		sx := cfggen.NewSecret("sX", c.brokenKey(), "10.7.0.0/16")
		sx.Options["prefixes"] = c.Broken
		sx.Prefixes = nil
		w.Cfg.Secrets = append(w.Cfg.Secrets, sx)
		w.Cfg.Users = append(w.Cfg.Users, cfggen.User{Name: "xavier", Scopes: []string{"sX"}, Authenticator: cfggen.BcryptAuth("pw-alpha")})
	}
	return w
}

func (c c18Case) brokenKey() string { return "Br0" + strings.TrimPrefix(c.Key, "K3y") }

func runC18(t failer, c c18Case) (paths map[string]bool) {
	ev.Eval()
	journal("C18", c)
	paths = map[string]bool{}
	fail := func(sig, format string, args ...interface{}) {
		violation(t, "C18", "logs", "C18:"+sig, c, format, args...)
	}
	w := c.world()
	env, err := startRef(w.Cfg, refOpts{keychain: refsrv.MapKeychain(w.KeychainBytes()), recover: true, realLog: c.Level})
	if err != nil {
		ev.Class("config-refused")
		return
	}
	defer func() {
		if e := env.stop(); e != nil {
			t.Fatalf("%v", e)
		}
	}()
	d, err := env.dial(cfggen.AddrIn(c.Scope, 9).IP(), 4242)
	if err != nil {
		t.Fatalf("%v", err)
	}
	r := newAuthRunner(d, []byte(c.Key), c.Scripts)
	tokens := map[string]string{c.Key: "shared secret"}
	if c.Broken != "" {
		ev.Class("misconfigured-scope-with-own-key")
		tokens[c.brokenKey()] = "shared secret of a secret configuration that cannot be served"
	}
	// strings the client also sent in a position that is not a password position (a user name, a
	// message answering GETUSER, ...): the server may log those, so they cannot serve as tokens
	elsewhere := map[string]bool{}
	lastStatus := make([]byte, len(c.Scripts))
	scan := func(when string) {
		if env.realOut != nil {
			ev.Class(fmt.Sprintf("reference-logger-level:%d", c.Level))
			out := env.realOut.String()
			for tok, what := range tokens {
				if !sentElsewhere(elsewhere, tok) && strings.Contains(out, tok) {
					at := strings.Index(out, tok)
					fail("token-in-log-output", "%s: the %s appears in what the reference logger (level %d) wrote: ...%q...", when, what, c.Level, clipStr(out[max(0, at-200):at+len(tok)]))
				}
			}
		}
		for _, e := range env.logger.Entries() {
			for tok, what := range tokens {
				if sentElsewhere(elsewhere, tok) {
					continue
				}
				switch e.Kind {
				case "infof", "errorf", "debugf":
					if strings.Contains(e.Text, tok) {
						fail("token-in-message", "%s: the %s appears in a %s message: %q", when, what, e.Kind, clipStr(e.Text))
					}
				case "record":
					obscured := map[string]bool{}
					for _, k := range e.Obscure {
						obscured[k] = true
					}
					for k, v := range e.Map {
						if strings.Contains(k, tok) || (strings.Contains(v, tok) && !obscured[k]) {
							fail("token-in-record", "%s: the %s appears in a structured record under key %q which the call does not mark as obscured (obscured: %v)", when, what, k, e.Obscure)
						}
					}
				case "set":
					for k, v := range e.Map {
						if strings.Contains(v, tok) {
							fail("token-retained", "%s: the %s is selected for retention in the logging context under key %q", when, what, k)
						}
					}
				}
			}
		}
	}
	for _, i := range c.Order {
		j := r.next[i]
		if j >= len(c.Scripts[i].Pkts) {
			continue
		}
		p := c.Scripts[i].Pkts[j]
		// is this packet a password position?
		isPwPos := false
		switch {
		case p.Kind == "start" && p.Start.AType == 2:
			isPwPos = true
		case p.Kind == "continue" && lastStatus[i] == stGetPass:
			isPwPos = true
		}
		switch p.Kind {
		case "start":
			elsewhere[string(p.Start.User)], elsewhere[string(p.Start.Port)], elsewhere[string(p.Start.RemAddr)] = true, true, true
			if !isPwPos {
				elsewhere[string(p.Start.Data)] = true
			}
		case "continue":
			elsewhere[string(p.Cont.Data)] = true
			if !isPwPos {
				elsewhere[string(p.Cont.UserMsg)] = true
			}
		}
		switch {
		case p.Kind == "start" && p.Start.AType == 2 && searchable(string(p.Start.Data)):
			tokens[string(p.Start.Data)] = "PAP password"
			paths["pap"] = true
			if !(p.Start.Action == 1 && p.Minor == 1) {
				paths["unrecognised-start-with-password"] = true
			}
		case p.Kind == "continue" && lastStatus[i] == stGetPass && searchable(string(p.Cont.UserMsg)):
			tokens[string(p.Cont.UserMsg)] = "ASCII password"
			paths["ascii"] = true
			if p.Cont.Flags&1 != 0 {
				paths["abort-with-password"] = true
			}
		}
		e, ok, err := r.step(i)
		if err != nil {
			t.Fatalf("%v", err)
		}
		if !ok {
			continue
		}
		if p.WithNext && j+1 < len(c.Scripts[i].Pkts) {
			// the packet that went out in the same write: it is a password if the server's answer to the
			// packet before it was the password prompt
			ev.Class("two-packets-of-a-login-in-one-write")
			if q := c.Scripts[i].Pkts[j+1]; q.Kind == "continue" {
				if e.FirstStatus == stGetPass && searchable(string(q.Cont.UserMsg)) {
					tokens[string(q.Cont.UserMsg)] = "ASCII password (sent in one write with the user name)"
					paths["ascii"] = true
				} else {
					elsewhere[string(q.Cont.UserMsg)] = true
				}
				elsewhere[string(q.Cont.Data)] = true
			}
		}
		lastStatus[i] = e.Status
		switch e.Status {
		case stFail:
			paths["fail"] = true
		case stError:
			paths["error"] = true
		case stPass:
			paths["pass"] = true
		}
	}
	scan("after the history")
	return paths
}

func clipStr(s string) string {
	if len(s) > 300 {
		return s[:300] + "…"
	}
	return s
}

func classifyC18(c c18Case, paths map[string]bool) {
	nt := false
	for p := range paths {
		ev.Class("path:" + p)
		if p == "unrecognised-start-with-password" || p == "abort-with-password" || p == "fail" || p == "error" {
			nt = true
		}
	}
	if (paths["pap"] || paths["ascii"]) && nt {
		ev.NonTrivial("c18", c)
	}
}

func TestC18(t *testing.T) {
	rapid.Check(t, func(rt *rapid.T) {
		c := genC18(rt)
		paths := runC18(rt, c)
		classifyC18(c, paths)
	})
}

// TestC18EnumSlowPassword: ASCII logins in which the user takes his time at the password prompt (16.5 s of
// real time in quick - longer than the read deadline the server arms - 65 s in thorough) while another
// session comes and goes on the connection; the password he then sends is a searchable token.
func TestC18EnumSlowPassword(t *testing.T) {
	pause := 16500
	if os.Getenv("VERIF_TIER") == "thorough" {
		pause = 65000
	}
	var w cfggen.World
	w.Keychain = map[string]string{}
	w.Cfg.Secrets = []cfggen.Secret{cfggen.NewSecret(cfggen.ScopeA, cfggen.KeyA, cfggen.PrefixA), cfggen.NewSecret(cfggen.ScopeB, cfggen.KeyB, cfggen.PrefixB)}
	w.Cfg.Users = []cfggen.User{{Name: "alice", Scopes: []string{cfggen.ScopeA, cfggen.ScopeB}, Authenticator: cfggen.BcryptAuth("pw-alpha"), Accounter: cfggen.FileAccounter()}}
	start := func(user string) authPkt {
		return authPkt{Kind: "start", Start: &model.AuthenStart{Action: 1, Priv: 1, AType: 1, Service: 1, User: model.B(user), Port: model.B("tty0"), RemAddr: model.B("r")}}
	}
	late := cont("T0kSl0wPassw0rdAtThePr0mpt", 0)
	late.PauseMs = pause
	c := c18Case{World: w, Scope: cfggen.ScopeA, Key: "K3ySl0wPassw0rdC4se", Level: 30, Scripts: []authScript{
		{Flavour: "ascii-wrong", Session: 0x1000, Pkts: []authPkt{start("alice"), late}},
		{Flavour: "ascii-user-in-continue", Session: 0x1001, Pkts: []authPkt{start(""), cont("alice", 0), cont("T0kS3c0ndL4tePassw0rd", 0)}},
		{Flavour: "pap-wrong", Session: 0x1002, Pkts: []authPkt{{Kind: "start", Minor: 1, Start: &model.AuthenStart{Action: 1, Priv: 1, AType: 2, Service: 1, User: model.B("alice"), Port: model.B("tty0"), RemAddr: model.B("r"), Data: model.B("T0kP4pWr0ngPassw0rd")}}}},
	}, Order: []int{0, 1, 1, 2, 0, 1}}
	classifyC18(c, runC18(t, c))
	ev.Class("real-time-passes-at-the-password-prompt")
}

// TestC18EnumPipelinedLogin: ASCII logins on a single-connect connection in which the client sends the
// user name and the password in one write, without waiting for the password prompt; with and without the
// single-connect flag, next to another login.
func TestC18EnumPipelinedLogin(t *testing.T) {
	var w cfggen.World
	w.Keychain = map[string]string{}
	w.Cfg.Secrets = []cfggen.Secret{cfggen.NewSecret(cfggen.ScopeA, cfggen.KeyA, cfggen.PrefixA), cfggen.NewSecret(cfggen.ScopeB, cfggen.KeyB, cfggen.PrefixB)}
	w.Cfg.Users = []cfggen.User{{Name: "alice", Scopes: []string{cfggen.ScopeA, cfggen.ScopeB}, Authenticator: cfggen.BcryptAuth("pw-alpha"), Accounter: cfggen.FileAccounter()}}
	start := func(user string) authPkt {
		return authPkt{Kind: "start", Start: &model.AuthenStart{Action: 1, Priv: 1, AType: 1, Service: 1, User: model.B(user), Port: model.B("tty0"), RemAddr: model.B("r")}}
	}
	for round := 0; round < 30; round++ {
		for _, hflags := range []byte{4, 0} {
			for _, user := range []string{"alice", "mallory"} {
				name := cont(user, 0)
				name.WithNext = true
				c := c18Case{World: w, Scope: cfggen.ScopeA, Key: "K3yP1pel1nedL0g1nC4se", Level: 30, Scripts: []authScript{
					{Flavour: "ascii-user-in-continue", Session: 0x2000, HFlags: hflags, Pkts: []authPkt{start(""), name, cont(fmt.Sprintf("T0kP1pel1nedPassw0rd%dx%d", round, hflags), 0)}},
					{Flavour: "ascii-wrong", Session: 0x2001, HFlags: hflags, Pkts: []authPkt{start("alice"), cont("T0k0therL0g1nPassw0rd", 0)}},
				}, Order: []int{0, 1, 0, 1}}
				classifyC18(c, runC18(t, c))
			}
		}
	}
}

func TestC18Regress(t *testing.T) {
	for _, s := range loadSaved(t, "C18") {
		var c c18Case
		mustUnmarshal(t, s, &c)
		runC18(t, c)
	}
}

// sentElsewhere: the client also sent the token (possibly inside a longer string) somewhere that is not a
// password position.
func sentElsewhere(elsewhere map[string]bool, tok string) bool {
	for e := range elsewhere {
		if e != "" && strings.Contains(e, tok) {
			return true
		}
	}
	return false
}

// TestC18EnumWatcherRefusedReload: the file watcher (cmds/server/loader/fsnotify) around the YAML and the
// JSON document loader, with a recording logger.  A valid document whose shared secrets are searchable
// tokens is loaded; then the file is rewritten with documents the loader refuses in different ways (a value
// of the wrong type right behind a key, a cut in the middle, stray punctuation).  The old configuration
// stays in force, so its secrets are live; nothing the watcher or the loader logs may contain them.
func TestC18EnumWatcherRefusedReload(t *testing.T) {
	for _, format := range []string{"json", "yaml"} {
		ev.Eval()
		dir, err := os.MkdirTemp("", "verif-c18w-")
		if err != nil {
			t.Fatalf("HARNESS-BUG: %v", err)
		}
		defer os.RemoveAll(dir)
		path := filepath.Join(dir, "tacquito."+format)
		keyA, keyB := "K3yWatcherSecretAlpha01", "K3yWatcherSecretBravo02"
		cfg := cfggen.Config{
			Secrets: []cfggen.Secret{cfggen.NewSecret(cfggen.ScopeA, keyA, cfggen.PrefixA), cfggen.NewSecret(cfggen.ScopeB, keyB, cfggen.PrefixB)},
			Users:   []cfggen.User{{Name: "alice", Scopes: []string{cfggen.ScopeA, cfggen.ScopeB}, Authenticator: cfggen.BcryptAuth("pw-alpha"), Accounter: cfggen.FileAccounter()}},
		}
		good := cfg.YAML()
		var um interface {
			Unmarshal(b []byte) error
			Load(path string) error
			Config() chan config.ServerConfig
		} = yamll.New()
		if format == "json" {
			good = cfg.JSON()
			um = jsonl.New()
		}
		var bad [][]byte
		text := string(good)
		for _, r := range [][2]string{{`"type":1`, `"type":"1"`}, {`"type":1`, `"type":{"x":1}`}, {`"prefixes"`, `]"prefixes"`}, {"type: 1", "type: [1"}, {"type: 1", "type: {a: b}"}, {"group: tacquito", "group: [tacquito"}, {"handler:", "handler: 7\n    x:"}} {
			if strings.Contains(text, r[0]) {
				// the last occurrence: behind both keys
				i := strings.LastIndex(text, r[0])
				bad = append(bad, []byte(text[:i]+r[1]+text[i+len(r[0]):]))
				j := strings.Index(text, r[0])
				bad = append(bad, []byte(text[:j]+r[1]+text[j+len(r[0]):]))
			}
		}
		bad = append(bad, good[:len(good)*6/10], good[:len(good)*9/10], append(append([]byte{}, good...), []byte("\n]]}{")...))
		cse := map[string]interface{}{"watcher_refused_reload": true, "format": format, "documents": len(bad)}
		journal("C18", cse)
		if err := os.WriteFile(path, good, 0o600); err != nil {
			t.Fatalf("HARNESS-BUG: %v", err)
		}
		ctx, cancel := context.WithCancel(context.Background())
		wl := &watchLog{}
		w := fsnotify.New(ctx, um, wl)
		if err := w.Load(path); err != nil {
			cancel()
			t.Fatalf("HARNESS-BUG: watcher refused the first document: %v", err)
		}
		select {
		case <-w.Config():
		case <-time.After(watchdog):
			cancel()
			t.Fatalf("HARNESS-BUG/INCONCLUSIVE: the first document was not published")
		}
		for k, doc := range bad {
			before := len(wl.snapshot())
			if err := os.WriteFile(path, doc, 0o600); err != nil {
				t.Fatalf("HARNESS-BUG: %v", err)
			}
			// the watcher acts on its next tick; wait until it has logged something about this rewrite
			reloaded := func() bool {
				for _, rec := range wl.snapshot()[before:] {
					if strings.Contains(rec.text, "reloading config") || rec.level == "error" {
						return true
					}
				}
				return false
			}
			for tries := 0; tries < 300 && !reloaded(); tries++ {
				time.Sleep(10 * time.Millisecond)
			}
			time.Sleep(100 * time.Millisecond)
			select {
			case <-w.Config(): // a document the loader accepts after all: nothing to refuse
			default:
			}
			for _, rec := range wl.snapshot() {
				for _, tok := range []string{keyA, keyB} {
					if strings.Contains(rec.text, tok) {
						cancel()
						violation(t, "C18", "secret", "C18:token-in-message", cse, "refused reload %d of a %s document: the shared secret of a configuration that is still in force appears in a %s message of the watcher: %q", k, format, rec.level, clipStr(rec.text))
					}
				}
			}
		}
		cancel()
		ev.Class("watcher:refused-reloads:" + format)
		ev.NonTrivial("watcher-refused-reload", cse)
	}
}
