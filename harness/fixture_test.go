package harness

import (
	"context"
	"fmt"
	"net"
	"sync"
	"time"

	tq "github.com/facebookincubator/tacquito"
	"verif/harness/model"
	"verif/harness/transport"
)

// watchdog bounds every wait of the harness.  It never decides a property: expiry means the run is
// inconclusive (exit 2).
const watchdog = 30 * time.Second

// nopLogger satisfies the library's logger interfaces without synchronising anything.
type nopLogger struct{}

func (nopLogger) Infof(ctx context.Context, format string, args ...interface{})  {}
func (nopLogger) Errorf(ctx context.Context, format string, args ...interface{}) {}
func (nopLogger) Debugf(ctx context.Context, format string, args ...interface{}) {}
func (nopLogger) Record(ctx context.Context, r map[string]string, obscure ...string) {
}
func (nopLogger) Set(ctx context.Context, fields map[string]string, keys ...tq.ContextKey) context.Context {
	return ctx
}

// staticSP hands the same secret and handler to every connection.
type staticSP struct {
	secret  []byte
	handler tq.Handler
}

func (s staticSP) Get(ctx context.Context, remote net.Addr) ([]byte, tq.Handler, error) {
	return s.secret, s.handler, nil
}

// libServer runs tq.Server.Serve on a scripted listener.
type libServer struct {
	log    *transport.Log
	ln     *transport.Listener
	cancel context.CancelFunc
	done   chan struct{}
	mu     sync.Mutex
	conns  []*transport.Conn
}

func startServer(logger interface {
	Infof(ctx context.Context, format string, args ...interface{})
	Errorf(ctx context.Context, format string, args ...interface{})
	Debugf(ctx context.Context, format string, args ...interface{})
	Record(ctx context.Context, r map[string]string, obscure ...string)
}, sp tq.SecretProvider, opts ...tq.Option) *libServer {
	log := transport.NewLog()
	s := &libServer{log: log, ln: transport.NewListener(log), done: make(chan struct{})}
	ctx, cancel := context.WithCancel(context.Background())
	s.cancel = cancel
	srv := tq.NewServer(logger, sp, opts...)
	go func() {
		_ = srv.Serve(ctx, s.ln)
		log.Add(transport.EvServeReturn, -1, 0, nil, "")
		close(s.done)
	}()
	return s
}

// errServeGone: Serve has returned although nobody cancelled it or closed its listener.
var errServeGone = fmt.Errorf("Serve has returned: the server no longer accepts connections")

var defaultRemote = &net.TCPAddr{IP: net.IPv4(192, 0, 2, 10), Port: 40000}

// connect offers a new scripted connection and waits until the server is reading from it (or closed it).
func (s *libServer) connect(remote net.Addr) (*transport.Conn, error) {
	if remote == nil {
		remote = defaultRemote
	}
	c := transport.NewConn(transport.NextID(), s.log, remote)
	s.mu.Lock()
	s.conns = append(s.conns, c)
	s.mu.Unlock()
	select {
	case <-s.done:
		return c, errServeGone
	default:
	}
	s.ln.Offer(c)
	// poll in short waits so that a Serve that has returned is noticed instead of waiting for the watchdog
	for waited := time.Duration(0); waited < watchdog; waited += 200 * time.Millisecond {
		if c.AwaitQuiescentOrClosed(200 * time.Millisecond) {
			return c, nil
		}
		select {
		case <-s.done:
			return c, errServeGone
		default:
		}
	}
	return c, fmt.Errorf("HARNESS-BUG/INCONCLUSIVE: server never started reading connection %d", c.ID)
}

// stop cancels the server, lets Accept time out, ends every connection and waits for Serve.
func (s *libServer) stop() error {
	s.cancel()
	s.ln.Kick()
	s.mu.Lock()
	conns := append([]*transport.Conn{}, s.conns...)
	s.mu.Unlock()
	for _, c := range conns {
		c.FeedEOF()
	}
	select {
	case <-s.done:
		return nil
	case <-time.After(watchdog):
		return fmt.Errorf("HARNESS-BUG/INCONCLUSIVE: Serve did not return within the watchdog")
	}
}

// exchange feeds wire bytes, waits for the server to go quiescent or close, and returns the packets
// written since the previous call together with whether the connection is closed.
type connDriver struct {
	c    *transport.Conn
	seen int // bytes of output already consumed
}

func (d *connDriver) send(wire ...[]byte) (pkts []model.Packet, rest []byte, closed bool, err error) {
	d.c.Feed(wire...)
	return d.collect()
}

func (d *connDriver) collect() (pkts []model.Packet, rest []byte, closed bool, err error) {
	if !d.c.AwaitQuiescentOrClosed(watchdog) {
		if err := deadlockVerdict(fmt.Sprintf("connection %d neither went back to reading nor was closed", d.c.ID)); err != nil {
			return nil, nil, false, err
		}
		return nil, nil, false, fmt.Errorf("HARNESS-BUG/INCONCLUSIVE: connection %d neither went quiescent nor closed", d.c.ID)
	}
	all, _ := d.c.Written()
	fresh := all[d.seen:]
	pkts, rest = model.SplitStream(fresh)
	d.seen = len(all) - len(rest)
	return pkts, rest, d.c.Closed(), nil
}

// late waits up to wait for output that was written after the server had gone back to reading (a reply
// sent from another goroutine than the one that reads); it returns what arrived.
func (d *connDriver) late(wait time.Duration) (pkts []model.Packet, rest []byte, closed bool) {
	deadline := time.Now().Add(wait)
	for {
		all, _ := d.c.Written()
		if len(all) > d.seen || d.c.Closed() || time.Now().After(deadline) {
			fresh := all[d.seen:]
			pkts, rest = model.SplitStream(fresh)
			d.seen = len(all) - len(rest)
			return pkts, rest, d.c.Closed()
		}
		time.Sleep(2 * time.Millisecond)
	}
}

func timeAfter(d time.Duration) <-chan time.Time { return time.After(d) }
