package harness

import (
	"bytes"
	"runtime"
	"runtime/metrics"
	"sort"
	"strings"
	"syscall"
	"testing"

	tq "github.com/facebookincubator/tacquito"
	"verif/harness/ev"
	"verif/harness/model"
	"verif/harness/transport"

	"pgregory.net/rapid"
)

// C05 — packet framing is independent of how the TCP stream is segmented.

type c05Pkt struct {
	Type    byte    `json:"type"`
	Minor   byte    `json:"minor"`
	Seq     byte    `json:"seq"`
	Flags   byte    `json:"flags"`
	Session uint32  `json:"session"`
	N       int     `json:"n"`
	Tile    model.B `json:"tile"`
}

type c05Case struct {
	Side     string   `json:"side"` // server | client
	Secret   model.B  `json:"secret"`
	Pkts     []c05Pkt `json:"pkts"`
	Cuts     []int    `json:"cuts"`     // cut positions in the concatenated stream
	Terminal string   `json:"terminal"` // eof-boundary | eof-mid-header | eof-mid-body | stall-timeout | oversize
	Partial  int      `json:"partial"`  // bytes of one further packet delivered before the terminal event
	Oversize uint32   `json:"oversize"` // announced length of the terminal oversize header
	// Proxy: the server runs with SetUseProxy(true) and every packet is preceded by an HAProxy
	// protocol line terminated by a NUL octet, as that mode expects (server side only)
	Proxy bool `json:"proxy,omitempty"`
	// the packet that is cut short (eof-mid-*, stall-timeout): flag octet, type and announced body length
	// (0 = the defaults 0 / 1 / 20 of cases saved earlier)
	PartFlags byte `json:"part_flags,omitempty"`
	PartType  byte `json:"part_type,omitempty"`
	PartN     int  `json:"part_n,omitempty"`
	// Pending (server side): the handler registers a continuation when it handles the first packet, so a
	// session is waiting while the later packets (of other sessions) and the terminal event arrive
	Pending bool `json:"pending,omitempty"`
	// Reset: where the stream ends it ends in a transport error (connection reset by peer), not in EOF
	Reset bool `json:"reset,omitempty"`
	// Earlier (client side): this many clients were created, used for one exchange and closed twice (an
	// explicit Close and a deferred one) earlier in the process; Sibling: another client is created on a
	// connection of its own right after the one that is judged, and used after it.  Every receiver sees
	// its own stream, whatever happened to other connections
	Earlier int  `json:"earlier,omitempty"`
	Sibling bool `json:"sibling,omitempty"`
}

const proxyLine = "PROXY TCP4 192.0.2.1 198.51.100.7 40000 49\r\n\x00"

// consistentBody builds n bytes that are length-consistent under one layout of the packet type, so the
// wrong-key heuristic stays silent (C19 covers that heuristic).
func consistentBody(typ byte, n int, tile []byte) []byte {
	out := make([]byte, n)
	if len(tile) == 0 {
		tile = []byte{0x41}
	}
	for i := range out {
		out[i] = tile[i%len(tile)] ^ byte(i>>8)
	}
	switch typ {
	case model.TypeAuthen, model.TypeAcct:
		// CONTINUE layout / accounting REPLY layout: two 16-bit lengths, then one octet
		if n >= 5 {
			copy(out, []byte{byte((n - 5) >> 8), byte(n - 5), 0, 0, 1})
		}
	case model.TypeAuthor:
		// authorization REPLY layout: status, arg_cnt, two 16-bit lengths
		if n >= 6 {
			copy(out, []byte{1, 0, byte((n - 6) >> 8), byte(n - 6), 0, 0})
		}
	}
	return out
}

func (p c05Pkt) header() model.Header {
	return model.Header{Version: 0xc0 | p.Minor, Type: p.Type, Seq: p.Seq, Flags: p.Flags, Session: p.Session, Length: uint32(p.N)}
}

func genC05(t *rapid.T) c05Case {
	c := c05Case{
		Side:   rapid.SampledFrom([]string{"server", "server", "client"}).Draw(t, "side"),
		Secret: genSecret(t, "secret"),
	}
	np := rapid.IntRange(1, 12).Draw(t, "npkts")
	big := 0
	for i := 0; i < np; i++ {
		p := c05Pkt{
			Type:    rapid.SampledFrom([]byte{1, 2, 3}).Draw(t, "type"),
			Minor:   rapid.SampledFrom([]byte{0, 1}).Draw(t, "minor"),
			Flags:   rapid.SampledFrom([]byte{0, 0, 1, 4, 5}).Draw(t, "flags"),
			Session: rapid.OneOf(rapid.Uint32Range(1, 4), rapid.Uint32()).Draw(t, "session"),
			Tile:    rapid.SliceOfN(rapid.Byte(), 1, 4).Draw(t, "tile"),
		}
		p.N = rapid.OneOf(
			rapid.IntRange(0, 40),
			rapid.SampledFrom([]int{0, 5, 6, 83, 94, 95, 96, 106, 107, 108, 119, 214, 4096}),
			rapid.SampledFrom([]int{65535, 65536}),
		).Draw(t, "n")
		if p.N > 5000 {
			if big++; big > 2 {
				p.N = 17
			}
		}
		if c.Side == "server" {
			p.Seq = byte(2*rapid.IntRange(0, 127).Draw(t, "seqhalf") + 1)
		} else {
			p.Seq = byte(2 * rapid.IntRange(1, 127).Draw(t, "seqhalf"))
		}
		c.Pkts = append(c.Pkts, p)
	}
	c.Terminal = rapid.SampledFrom([]string{"eof-boundary", "eof-boundary", "eof-mid-header", "eof-mid-body", "stall-timeout", "oversize"}).Draw(t, "terminal")
	if c.Side == "client" {
		c.Earlier = rapid.SampledFrom([]int{0, 0, 1, 2}).Draw(t, "earlier_clients_closed_twice")
		c.Sibling = rapid.IntRange(0, 2).Draw(t, "sibling_client") == 0
		c.Terminal = rapid.SampledFrom([]string{"eof-boundary", "eof-mid-header", "eof-mid-body", "oversize"}).Draw(t, "terminal_client")
	}
	c.Reset = rapid.IntRange(0, 3).Draw(t, "ends_in_reset") == 0
	c.Pending = c.Side == "server" && rapid.IntRange(0, 2).Draw(t, "session_pending") == 0
	if c.Pending && len(c.Pkts) > 0 {
		// no later packet of the stream belongs to the waiting session (that would be a matter of
		// sequence numbers, C08, not of framing)
		c.Pkts[0].Session = 0x7ffe0001
		for i := 1; i < len(c.Pkts); i++ {
			if c.Pkts[i].Session == c.Pkts[0].Session {
				c.Pkts[i].Session ^= 0x10
			}
		}
	}
	switch c.Terminal {
	case "eof-mid-header":
		c.Partial = rapid.IntRange(1, 11).Draw(t, "partial")
	case "eof-mid-body":
		c.PartN = rapid.SampledFrom([]int{20, 20, 6, 5, 1}).Draw(t, "part_n")
		c.PartFlags = rapid.SampledFrom([]byte{0, 0, 1, 5}).Draw(t, "part_flags")
		c.PartType = rapid.SampledFrom([]byte{1, 1, 2, 3}).Draw(t, "part_type")
		c.Partial = 12 + rapid.IntRange(0, c.PartN-1).Draw(t, "partial")
		if rapid.IntRange(0, 3).Draw(t, "header_only") == 0 {
			c.Partial = 12 // the stream ends exactly behind a header that announces a body
		}
	case "stall-timeout":
		c.Partial = rapid.IntRange(1, 31).Draw(t, "partial")
	case "oversize":
		c.Oversize = rapid.SampledFrom([]uint32{65537, 65538, 1 << 17, 1 << 24, 1 << 31, 0xffffffff}).Draw(t, "oversize")
	}
	if c.Side == "server" {
		c.Proxy = rapid.IntRange(0, 3).Draw(t, "proxy") == 0
	}
	pl := 0
	if c.Proxy {
		pl = len(proxyLine)
	}
	total := 0
	var bounds []int
	for _, p := range c.Pkts {
		total += pl
		bounds = append(bounds, total, total+8, total+10, total+12)
		total += 12 + p.N
		bounds = append(bounds, total)
	}
	if c.Terminal != "eof-boundary" {
		total += pl
	}
	total += c.Partial
	if c.Terminal == "oversize" {
		total += 12
	}
	mode := rapid.SampledFrom([]string{"random", "boundaries", "one-chunk", "bytewise", "random", "mixed"}).Draw(t, "cutmode")
	cuts := map[int]bool{}
	switch mode {
	case "one-chunk":
	case "bytewise":
		if total <= 1500 {
			for i := 1; i < total; i++ {
				cuts[i] = true
			}
		} else {
			// bytewise across the first packets' headers, then random
			for i := 1; i < 200; i++ {
				cuts[i] = true
			}
		}
	case "boundaries":
		for _, b := range bounds {
			if b%3 != 1 || rapid.Bool().Draw(t, "keep") {
				cuts[b] = true
			}
		}
	case "random", "mixed":
		n := rapid.IntRange(0, 30).Draw(t, "ncuts")
		for i := 0; i < n && total > 1; i++ {
			cuts[rapid.IntRange(1, total-1).Draw(t, "cut")] = true
		}
		if mode == "mixed" {
			for _, b := range bounds {
				if rapid.Bool().Draw(t, "keepb") {
					cuts[b] = true
				}
			}
		}
	}
	for k := range cuts {
		if k > 0 && k < total {
			c.Cuts = append(c.Cuts, k)
		}
	}
	sort.Ints(c.Cuts)
	return c
}

// stream builds the bytes on the wire and the chunks they are delivered in.
func (c c05Case) stream() (wire []byte, chunks [][]byte, clears [][]byte) {
	for _, p := range c.Pkts {
		clear := consistentBody(p.Type, p.N, p.Tile)
		clears = append(clears, clear)
		if c.Proxy {
			wire = append(wire, proxyLine...)
		}
		wire = append(wire, model.Frame(c.Secret, p.header(), clear)...)
	}
	switch c.Terminal {
	case "eof-mid-header", "eof-mid-body", "stall-timeout":
		pn, pt := c.PartN, c.PartType
		if pn == 0 {
			pn = 20
		}
		if pt == 0 {
			pt = 1
		}
		part := model.Frame(c.Secret, model.Header{Version: 0xc0, Type: pt, Seq: 1, Flags: c.PartFlags, Session: 0x7fff0001}, consistentBody(pt, pn, []byte{9}))
		if c.Side == "client" {
			part[2] = 2
		}
		if c.Proxy {
			wire = append(wire, proxyLine...)
		}
		wire = append(wire, part[:c.Partial]...)
	case "oversize":
		seq := byte(1)
		if c.Side == "client" {
			seq = 2
		}
		if c.Proxy {
			wire = append(wire, proxyLine...)
		}
		wire = append(wire, model.EncodeHeader(model.Header{Version: 0xc0, Type: 1, Seq: seq, Session: 0x7fff0002, Length: c.Oversize})...)
	}
	prev := 0
	for _, cut := range c.Cuts {
		if cut > prev && cut < len(wire) {
			chunks = append(chunks, wire[prev:cut])
			prev = cut
		}
	}
	chunks = append(chunks, wire[prev:])
	return wire, chunks, clears
}

func (c c05Case) pl() int {
	if c.Proxy {
		return len(proxyLine)
	}
	return 0
}

func (c c05Case) nontrivial() bool {
	if c.Terminal != "eof-boundary" {
		return true
	}
	if len(c.Pkts) < 2 {
		return false
	}
	// a cut strictly inside a packet
	off := 0
	for _, p := range c.Pkts {
		off += c.pl()
		end := off + 12 + p.N
		for _, cut := range c.Cuts {
			if cut > off && cut < end {
				return true
			}
		}
		off = end
	}
	return false
}

func runC05(t failer, c c05Case) {
	ev.Eval()
	journal("C05", c)
	fail := func(sig, format string, args ...interface{}) {
		violation(t, "C05", c.Side, "C05:"+c.Side+":"+sig, c, format, args...)
	}
	_, chunks, clears := c.stream()
	if c.Side == "server" {
		rh := &recHandler{}
		if c.Pending {
			ev.Class("session-waiting-for-continuation")
			first := true
			rh.reply = func(resp tq.Response, req tq.Request) {
				if first {
					first = false
					resp.Next(rh)
				}
			}
		}
		srv := startServer(nopLogger{}, staticSP{secret: nonNil(c.Secret), handler: rh}, tq.SetUseProxy(c.Proxy))
		conn, err := srv.connect(nil)
		if err != nil {
			t.Fatalf("%v", err)
		}
		var large0 uint64
		if c.Terminal == "oversize" {
			// deliver the complete packets first so that the allocation measured afterwards is
			// that of refusing the oversize header alone
			wire, _, _ := c.stream()
			split := len(wire) - 12
			var pre, post [][]byte
			off := 0
			for _, ch := range chunks {
				switch {
				case off+len(ch) <= split:
					pre = append(pre, ch)
				case off >= split:
					post = append(post, ch)
				default:
					pre = append(pre, ch[:split-off])
					post = append(post, ch[split-off:])
				}
				off += len(ch)
			}
			conn.Feed(pre...)
			if !conn.AwaitQuiescentOrClosed(watchdog) {
				t.Fatalf("HARNESS-BUG/INCONCLUSIVE: connection neither quiescent nor closed")
			}
			srv.log.SetMuted(true) // the event log's own growth must not be counted
			runtime.GC()
			large0 = largeAllocs()
			chunks = post
		}
		conn.Feed(chunks...)
		switch c.Terminal {
		case "eof-boundary", "eof-mid-header", "eof-mid-body":
			if c.Reset {
				conn.FeedError(syscall.ECONNRESET)
			} else {
				if c.Reset {
					conn.FeedError(syscall.ECONNRESET)
				} else {
					conn.FeedEOF()
				}
			}
		}
		if !conn.AwaitQuiescentOrClosed(watchdog) {
			t.Fatalf("HARNESS-BUG/INCONCLUSIVE: connection neither quiescent nor closed")
		}
		switch c.Terminal {
		case "stall-timeout":
			if conn.Closed() {
				fail("closed-before-timeout", "connection closed while a packet was still incomplete and no deadline had expired")
			}
			if len(rh.requests()) > len(c.Pkts) {
				fail("partial-delivered", "a partial packet reached the handler before its bytes were complete")
			}
			conn.ExpireDeadline()
			if !conn.AwaitQuiescentOrClosed(watchdog) {
				if conn.UnarmedStall() {
					fail("no-deadline-armed", "a read stalled in the middle of a packet with no read deadline armed")
				}
				t.Fatalf("HARNESS-BUG/INCONCLUSIVE: connection neither closed nor reading after the injected timeout")
			}
			if !conn.Closed() {
				// the read that timed out mid-packet was not treated as an error: the server reads on,
				// with the bytes it had already consumed lost
				fail("stall-not-an-error", "the read deadline expired in the middle of a packet and the connection was kept (the server went back to reading)")
			}
		case "oversize":
			if !conn.Closed() {
				fail("oversize-not-refused", "header announcing %d body bytes was not refused at once: the server waits for more input", c.Oversize)
			}
			// refusing must not allocate the announced body: any announced size is a "large object"
			// (> 32 KiB) for the Go allocator, and nothing else in the refusal path or in the (muted)
			// harness allocates one, so the count of large-object allocations must not move.  (A bound on
			// TotalAlloc proved noisy under load: metrics summaries and the runtime allocate a few
			// kilobytes at unpredictable moments.)
			if n := largeAllocs() - large0; n > 0 {
				fail("oversize-allocated", "refusing a header that announces %d bytes allocated %d object(s) larger than 32 KiB", c.Oversize, n)
			}
			srv.log.SetMuted(false)
		default:
			if !conn.AwaitClosed(watchdog) {
				t.Fatalf("HARNESS-BUG/INCONCLUSIVE: connection not closed after EOF")
			}
		}
		if e := srv.stop(); e != nil {
			t.Fatalf("%v", e)
		}
		if n := conn.Pending(); n != 0 && c.Terminal != "oversize" {
			fail("bytes-left-unread", "%d bytes fed were never read although no error occurred before them", n)
		}
		reqs := rh.requests()
		if len(reqs) != len(c.Pkts) {
			fail("packet-count", "handler received %d packets, %d complete packets were written (terminal %s)", len(reqs), len(c.Pkts), c.Terminal)
		}
		for i, r := range reqs {
			if gh := modelHeader(&r.Header); gh != c.Pkts[i].header() {
				fail("header-differs", "packet %d: header %+v, written %+v", i, gh, c.Pkts[i].header())
			}
			if !bytes.Equal(r.Body, clears[i]) {
				fail("body-differs", "packet %d: body differs from the cleartext written (len %d vs %d, first difference at %d)", i, len(r.Body), len(clears[i]), firstDiff(r.Body, clears[i]))
			}
		}
		return
	}
	// client side: the peer's stream is fed up front, segmented; Send must return packet after packet
	log := transport.NewLog()
	for k := 0; k < c.Earlier; k++ {
		ev.Class("client:earlier-client-closed-twice")
		econn := transport.NewConn(transport.NextID(), log, defaultRemote)
		ecl, err := tq.NewClient(tq.SetClientConn(econn, nonNil(c.Secret)))
		if err != nil {
			t.Fatalf("client: %v", err)
		}
		econn.Feed(model.Frame(c.Secret, model.Header{Version: 0xc0, Type: 1, Seq: 2, Session: 0xe0 + uint32(k)}, []byte{1, 0, 0, 0, 0, 0}))
		_ = catch(func() {
			_, _ = ecl.Send(tq.NewPacket(tq.SetPacketHeader(libHeader(model.Header{Version: 0xc0, Type: 1, Seq: 1, Session: 0xe0 + uint32(k)})), tq.SetPacketBody([]byte{0, 0, 0, 0, 0})))
			_ = ecl.Close()
			_ = ecl.Close()
		})
	}
	conn := transport.NewConn(transport.NextID(), log, defaultRemote)
	cl, err := tq.NewClient(tq.SetClientConn(conn, nonNil(c.Secret)))
	if err != nil {
		t.Fatalf("client: %v", err)
	}
	conn.Feed(chunks...)
	conn.FeedEOF()
	if c.Sibling {
		ev.Class("client:sibling-connection")
		sconn := transport.NewConn(transport.NextID(), log, defaultRemote)
		scl, err := tq.NewClient(tq.SetClientConn(sconn, nonNil(c.Secret)))
		if err != nil {
			t.Fatalf("client: %v", err)
		}
		sh := model.Header{Version: 0xc0, Type: 2, Seq: 2, Session: 0x51b11b}
		sbody := consistentBody(2, 23, []byte{0x51})
		sconn.Feed(model.Frame(c.Secret, sh, sbody))
		sconn.FeedEOF()
		defer func() {
			var resp *tq.Packet
			var err error
			if p := catch(func() {
				resp, err = scl.Send(tq.NewPacket(tq.SetPacketHeader(libHeader(model.Header{Version: 0xc0, Type: 2, Seq: 1, Session: 0x51b11b})), tq.SetPacketBody([]byte{0, 0, 0, 0, 0, 0, 0, 0})))
			}); p != nil {
				fail("panic", "Client.Send panics: %v", p)
			}
			if err != nil || resp == nil || !bytes.Equal(resp.Body, sbody) || uint32(resp.Header.SessionID) != 0x51b11b {
				fail("sibling-stream-differs", "the client on the sibling connection did not receive the one packet its peer wrote (err %v)", err)
			}
		}()
	}
	send := func() (*tq.Packet, error) {
		req := tq.NewPacket(tq.SetPacketHeader(libHeader(model.Header{Version: 0xc0, Type: 1, Seq: 1, Session: 1})), tq.SetPacketBody([]byte{0, 0, 0, 0, 0}))
		var resp *tq.Packet
		var err error
		if p := catch(func() { resp, err = cl.Send(req) }); p != nil {
			fail("panic", "Client.Send panics: %v", p)
		}
		return resp, err
	}
	var kept []*tq.Packet
	for i, p := range c.Pkts {
		resp, err := send()
		if err != nil {
			fail("packet-refused", "Send %d returned error %v for a complete well-formed packet", i, err)
		}
		kept = append(kept, resp)
		want := p.header()
		if want.Seq == 2 {
			want.Flags |= model.FlagSingleConnect
		}
		if gh := modelHeader(resp.Header); gh != want {
			fail("header-differs", "Send %d: header %+v, peer wrote %+v", i, gh, want)
		}
		if !bytes.Equal(resp.Body, clears[i]) {
			fail("body-differs", "Send %d: body differs from the cleartext the peer wrote (len %d vs %d, first difference at %d)", i, len(resp.Body), len(clears[i]), firstDiff(resp.Body, clears[i]))
		}
	}
	// a packet handed to the caller stays what it was, whatever is received afterwards
	for i, k := range kept {
		if !bytes.Equal(k.Body, clears[i]) {
			fail("returned-packet-changed", "the packet returned by Send %d no longer holds its cleartext after later packets were received (first difference at %d)", i, firstDiff(k.Body, clears[i]))
		}
	}
	// whatever follows (nothing, a partial packet, an oversize header) must be an error, not a packet
	resp, err := send()
	if err == nil {
		fail("short-packet-returned", "Send returned a packet (%d body bytes) although the stream ended: terminal %s", len(resp.Body), c.Terminal)
	}
}

func classifyC05(c c05Case) {
	ev.Class("side:" + c.Side)
	ev.Class("terminal:" + c.Terminal)
	if c.Reset && strings.HasPrefix(c.Terminal, "eof") {
		ev.Class("stream-ends-in-connection-reset")
	}
	if len(c.Cuts) == 0 {
		ev.Class("cuts:none(one chunk)")
	}
	off := 0
	hb, bb, inlen := false, false, false
	if c.Proxy {
		ev.Class("proxy-mode")
	}
	for _, p := range c.Pkts {
		off += c.pl()
		for _, cut := range c.Cuts {
			switch {
			case cut == off+12:
				hb = true
			case cut == off+12+p.N:
				bb = true
			case cut > off+8 && cut < off+12:
				inlen = true
			}
		}
		off += 12 + p.N
	}
	if hb {
		ev.Class("cut:exactly-after-header")
	}
	if bb {
		ev.Class("cut:exactly-after-body")
	}
	if inlen {
		ev.Class("cut:inside-length-field")
	}
	if len(c.Cuts) > 0 && len(c.Cuts) >= off-1 {
		ev.Class("cuts:one-byte-per-read")
	}
	for _, p := range c.Pkts {
		if p.N >= 65535 {
			ev.Class("body>=65535")
			break
		}
	}
	if c.nontrivial() {
		ev.NonTrivial(c.Side+":"+c.Terminal, c)
	}
}

func TestC05(t *testing.T) {
	rapid.Check(t, func(rt *rapid.T) {
		c := genC05(rt)
		runC05(rt, c)
		classifyC05(c)
	})
}

// TestC05Enum: two packets, every single cut position, both sides; and every oversize length.
func TestC05Enum(t *testing.T) {
	for _, side := range []string{"server", "client"} {
		seq := byte(1)
		if side == "client" {
			seq = 2
		}
		pk := []c05Pkt{{Type: 1, Seq: seq, Session: 11, N: 9, Tile: model.B{1, 2, 3}}, {Type: 2, Minor: 1, Seq: seq + 2, Session: 12, N: 0}, {Type: 3, Seq: seq, Session: 13, N: 108, Tile: model.B{7}}}
		total := 3*12 + 9 + 0 + 108
		for cut := 1; cut < total; cut++ {
			c := c05Case{Side: side, Secret: b("fooman"), Pkts: pk, Cuts: []int{cut}, Terminal: "eof-boundary"}
			runC05(t, c)
			classifyC05(c)
		}
		for part := 1; part < 32; part++ {
			term := "eof-mid-header"
			if part >= 12 {
				term = "eof-mid-body"
			}
			c := c05Case{Side: side, Secret: b("fooman"), Pkts: pk[:1], Terminal: term, Partial: part}
			runC05(t, c)
			classifyC05(c)
			if side == "server" {
				c.Terminal = "stall-timeout"
				runC05(t, c)
				classifyC05(c)
			}
		}
		for _, ov := range []uint32{65537, 65538, 1 << 20, 1 << 24, 1<<31 - 1, 1 << 31, 0xffffffff} {
			c := c05Case{Side: side, Secret: b("fooman"), Pkts: pk[:1], Terminal: "oversize", Oversize: ov}
			runC05(t, c)
			classifyC05(c)
		}
	}
}

func TestC05Regress(t *testing.T) {
	for _, s := range loadSaved(t, "C05") {
		var probe struct {
			Overlap bool `json:"overlap"`
			A       int  `json:"size_a"`
			B       int  `json:"size_b"`
			Seg     bool `json:"a_segmented"`
			Held    bool `json:"a_held"`
		}
		mustUnmarshal(t, s, &probe)
		if probe.Overlap {
			runOverlap(t, "C05", probe.A, probe.B, probe.Seg, probe.Held)
			continue
		}
		var c c05Case
		mustUnmarshal(t, s, &c)
		runC05(t, c)
	}
}

// largeAllocs returns how many heap objects larger than the biggest size class (32 KiB) have been
// allocated by the process so far.
func largeAllocs() uint64 {
	s := []metrics.Sample{{Name: "/gc/heap/allocs-by-size:bytes"}}
	metrics.Read(s)
	if s[0].Value.Kind() != metrics.KindFloat64Histogram {
		return 0
	}
	h := s[0].Value.Float64Histogram()
	return h.Counts[len(h.Counts)-1]
}
