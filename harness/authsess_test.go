package harness

import (
	"fmt"
	"time"

	"verif/harness/cfggen"
	"verif/harness/model"

	"pgregory.net/rapid"
)

// Authentication session scripts: what a client sends in one session, packet by packet.  Shared by
// C10 (outcome oracle), C18 (log oracle), C09 (isolation), C07 (reply counting) and C14.

type authPkt struct {
	Kind  string                `json:"kind"` // start | continue | raw
	Minor byte                  `json:"minor"`
	Start *model.AuthenStart    `json:"start,omitempty"`
	Cont  *model.AuthenContinue `json:"cont,omitempty"`
	Raw   model.B               `json:"raw,omitempty"`
	// PauseMs: real time that passes before the packet is sent (a user who takes his time at a prompt)
	PauseMs int `json:"pause_ms,omitempty"`
	// WithNext: this packet and the script's next one reach the server in one write (a client that does
	// not wait for the prompt); the sequence numbers are the ones a waiting client would use
	WithNext bool `json:"with_next,omitempty"`
}

func (p authPkt) body() []byte {
	switch p.Kind {
	case "start":
		return p.Start.Encode()
	case "continue":
		return p.Cont.Encode()
	}
	return p.Raw
}

type authScript struct {
	Flavour string    `json:"flavour"`
	Session uint32    `json:"session"`
	Pkts    []authPkt `json:"pkts"`
	// After > 0: this script reuses the session id of script After-1 once that session is over on the
	// server (final status), continuing its sequence numbers: a finished session must leave nothing behind
	After int `json:"after,omitempty"`
	// HFlags: flag octet of every header of the script (0x04 = single-connect)
	HFlags byte `json:"hflags,omitempty"`
}

const (
	stPass, stFail, stGetData, stGetUser, stGetPass, stRestart, stError = 1, 2, 3, 4, 5, 6, 7
)

func isASCII(b []byte) bool {
	for _, c := range b {
		if c > 0x7f {
			return false
		}
	}
	return true
}

// validStart: the START is inside what the library's own validation accepts (enum ranges, ASCII text).
func validStart(s model.AuthenStart) bool {
	okAction := s.Action == 1 || s.Action == 2 || s.Action == 4
	okType := s.AType >= 1 && s.AType <= 6
	okData := s.AType != 1 || isASCII(s.Data)
	return okAction && okType && s.Priv <= 15 && s.Service <= 9 && isASCII(s.User) && isASCII(s.Port) && isASCII(s.RemAddr) && okData &&
		len(s.User) <= 255 && len(s.Port) <= 255 && len(s.RemAddr) <= 255 && len(s.Data) <= 255
}

// destined returns the reply statuses a clean, correct login must receive, or nil if the script is
// not one (then only soundness is checked).
func destined(w cfggen.World, scope string, sc authScript) []byte {
	if len(sc.Pkts) == 0 || sc.Pkts[0].Kind != "start" {
		return nil
	}
	s := *sc.Pkts[0].Start
	if !validStart(s) || s.Action != 1 {
		return nil
	}
	users := w.Cfg.ScopeUsers(scope)
	kc := w.KeychainBytes()
	switch {
	case s.AType == 2 && sc.Pkts[0].Minor == 1: // PAP
		if len(sc.Pkts) != 1 || len(s.User) == 0 || len(s.Data) == 0 {
			return nil
		}
		u, ok := users[string(s.User)]
		if !ok || !u.Verifies(string(s.Data), kc) {
			return nil
		}
		return []byte{stPass}
	case s.AType == 1 && sc.Pkts[0].Minor == 0: // ASCII
		var exp []byte
		user := string(s.User)
		rest := sc.Pkts[1:]
		if user == "" {
			exp = append(exp, stGetUser)
			if len(rest) == 0 || !cleanContinue(rest[0]) || len(rest[0].Cont.UserMsg) == 0 {
				return nil
			}
			user = string(rest[0].Cont.UserMsg)
			rest = rest[1:]
		}
		exp = append(exp, stGetPass)
		if len(rest) != 1 || !cleanContinue(rest[0]) || len(rest[0].Cont.UserMsg) == 0 {
			return nil
		}
		u, ok := users[user]
		if !ok || !u.Verifies(string(rest[0].Cont.UserMsg), kc) {
			return nil
		}
		return append(exp, stPass)
	}
	return nil
}

func cleanContinue(p authPkt) bool {
	return p.Kind == "continue" && p.Minor == 0 && p.Cont.Flags&1 == 0 && isASCII(p.Cont.UserMsg) && len(p.Cont.UserMsg) <= 65535 && len(p.Cont.Data) <= 65535
}

// authSound tracks one server-side session for the soundness oracle.
type authSound struct {
	started   bool
	method    string // "pap" | "ascii" | ""
	candUsers map[string]bool
	first     bool
}

func newAuthSound() *authSound { return &authSound{candUsers: map[string]bool{}} }

// passJustified decides whether a PASS in answer to this packet is permitted by the statement: the
// session must be a LOGIN by a supported method at the right minor version, not aborted, and carry a
// non-empty password that verifies for a user the session named and that exists in the scope.
// It also advances the session's view (call once per packet, before looking at the reply).
func (a *authSound) passJustified(w cfggen.World, scope string, p authPkt) bool {
	body := p.body()
	users := w.Cfg.ScopeUsers(scope)
	kc := w.KeychainBytes()
	st, stOK, _ := model.DecodeAuthenStart(body)
	ct, ctOK, _ := model.DecodeAuthenContinue(body)
	first := !a.started
	if first {
		a.started = true
		if stOK && st.Action == 1 && st.AType == 2 && p.Minor == 1 {
			a.method = "pap"
		} else if stOK && st.Action == 1 && st.AType == 1 && p.Minor == 0 {
			a.method = "ascii"
		}
	}
	var pws []string
	if stOK {
		a.candUsers[string(st.User)] = true
		pws = append(pws, string(st.Data))
	}
	verify := func() bool {
		for name := range a.candUsers {
			u, ok := users[name]
			if !ok {
				continue
			}
			for _, pw := range pws {
				if pw != "" && u.Verifies(pw, kc) {
					return true
				}
			}
		}
		return false
	}
	switch a.method {
	case "pap":
		return first && verify()
	case "ascii":
		if first {
			return false // an ASCII START never carries the password
		}
		if !ctOK || ct.Flags&1 != 0 {
			if ctOK {
				a.candUsers[string(ct.UserMsg)] = true
			}
			return false
		}
		pws = append(pws, string(ct.UserMsg))
		ok := verify()
		a.candUsers[string(ct.UserMsg)] = true // a CONTINUE answering GETUSER names the user for later packets
		return ok
	}
	if ctOK {
		a.candUsers[string(ct.UserMsg)] = true
	}
	return false
}

func finalStatus(s byte) bool { return s == stPass || s == stFail || s == stError || s == stRestart }

// ---- generators ----

type lenProfile int

const (
	lpSmall lenProfile = iota
	lpBoundary
	lpMaxASCII // port, rem_addr, data 127 bytes: every length octet stays a printable-range value
)

func genField(t *rapid.T, label string, lp lenProfile, fallback string) model.B {
	switch lp {
	case lpSmall:
		return model.B(fallback)
	case lpMaxASCII:
		return genBytes(t, label, 127, alphaPrint)
	}
	return genBytes(t, label, len1(t, label+"_len"), alphaPrint)
}

func genStart(t *rapid.T, action, atype byte, user, data string) *model.AuthenStart {
	lp := rapid.SampledFrom([]lenProfile{lpSmall, lpSmall, lpBoundary, lpMaxASCII}).Draw(t, "len_profile")
	s := &model.AuthenStart{
		Action: action, AType: atype,
		Priv:    rapid.SampledFrom([]byte{0, 1, 15}).Draw(t, "priv"),
		Service: rapid.SampledFrom([]byte{1, 1, 2, 0, 3, 9}).Draw(t, "service"),
		User:    model.B(user),
		Port:    genField(t, "port", lp, "tty0"),
		RemAddr: genField(t, "rem", lp, "192.0.2.7"),
		Data:    model.B(data),
	}
	if atype == 1 && data == "" && lp == lpMaxASCII {
		s.Data = genBytes(t, "asciidata", 127, alphaPrint)
	}
	return s
}

// ambiguousAbort builds a CONTINUE with the abort bit set whose octets are, read with the other layout, a
// well-formed START of an ASCII login: the two length fields are 256+priv and 256+service (high octets 1 =
// LOGIN and ASCII), the flags octet doubles as the user length, the first three octets of user_msg as the
// port, rem_addr and data lengths, and the password closes the data field.
func ambiguousAbort(pw string, priv, service, flags byte) (authPkt, bool) {
	umLen, dLen := 256+int(priv), 256+int(service)
	sum := 5 + umLen + dLen - 8 - int(flags) - len(pw)
	if flags&1 == 0 || len(pw) < 1 || len(pw) > 127 || sum < 0 || sum > 254 || !isASCII([]byte(pw)) {
		return authPkt{}, false
	}
	um := make([]byte, umLen)
	for i := range um {
		um[i] = 'a'
	}
	um[0], um[1], um[2] = byte(sum/2), byte(sum-sum/2), byte(len(pw))
	data := make([]byte, dLen)
	for i := range data {
		data[i] = 'd'
	}
	copy(data[dLen-len(pw):], pw)
	p := authPkt{Kind: "continue", Cont: &model.AuthenContinue{Flags: flags, UserMsg: um, Data: data}}
	if st, ok, _ := model.DecodeAuthenStart(p.body()); !ok || st.Action != 1 || st.AType != 1 || string(st.Data) != pw {
		return authPkt{}, false
	}
	return p, true
}

func cont(msg string, flags byte) authPkt {
	return authPkt{Kind: "continue", Cont: &model.AuthenContinue{Flags: flags, UserMsg: model.B(msg)}}
}

// pickUser draws a user name: mostly one configured in the scope, sometimes one of another scope or unknown.
func pickUser(t *rapid.T, w cfggen.World, scope string) string {
	var in, other []string
	for name := range w.Cfg.ScopeUsers(scope) {
		in = append(in, name)
	}
	for _, u := range w.Cfg.Users {
		other = append(other, u.Name)
	}
	sortStrings(in)
	pools := [][]string{in, in, in, other, {"mallory", "root", ""}}
	for {
		p := rapid.SampledFrom(pools).Draw(t, "user_pool")
		if len(p) > 0 {
			return rapid.SampledFrom(p).Draw(t, "user")
		}
	}
}

func sortStrings(s []string) {
	for i := 1; i < len(s); i++ {
		for j := i; j > 0 && s[j] < s[j-1]; j-- {
			s[j], s[j-1] = s[j-1], s[j]
		}
	}
}

// pickPassword draws the right password for (scope,user) if there is one, else/or a wrong one.
func pickPassword(t *rapid.T, w cfggen.World, scope, user string, wantRight bool) string {
	if right, ok := w.CorrectPassword(scope, user); ok && wantRight {
		return right
	}
	otherScope := cfggen.ScopeB
	if scope == cfggen.ScopeB {
		otherScope = cfggen.ScopeA
	}
	switch rapid.IntRange(0, 4).Draw(t, "wrong_kind") {
	case 0:
		return ""
	case 1:
		if p, ok := w.CorrectPassword(otherScope, user); ok {
			return p // right in the other scope
		}
	case 2:
		for _, u := range w.Cfg.Users {
			if p, ok := w.CorrectPassword(scope, u.Name); ok && u.Name != user {
				return p // right for another user
			}
		}
	}
	return rapid.SampledFrom(append([]string{"wrong", "Pw-alpha", "pw-alpha "}, cfggen.Passwords...)).Draw(t, "some_password")
}

func genAuthScript(t *rapid.T, w cfggen.World, scope string, session uint32) authScript {
	sc := authScript{Session: session}
	sc.Flavour = rapid.SampledFrom([]string{"ascii", "ascii", "ascii-user-in-continue", "pap", "pap", "ascii-wrong", "pap-wrong", "ascii-abort", "odd-start", "misplaced", "raw"}).Draw(t, "flavour")
	user := pickUser(t, w, scope)
	switch sc.Flavour {
	case "ascii", "ascii-wrong", "ascii-abort":
		pw := pickPassword(t, w, scope, user, sc.Flavour != "ascii-wrong")
		sc.Pkts = []authPkt{{Kind: "start", Start: genStart(t, 1, 1, user, "")}}
		if user == "" {
			u2 := pickUser(t, w, scope)
			pw = pickPassword(t, w, scope, u2, sc.Flavour != "ascii-wrong")
			sc.Pkts = append(sc.Pkts, cont(u2, 0))
		}
		sc.Pkts = append(sc.Pkts, cont(pw, 0))
		if sc.Flavour == "ascii-abort" {
			k := rapid.IntRange(1, len(sc.Pkts)-1).Draw(t, "abort_at")
			sc.Pkts[k].Cont.Flags = rapid.SampledFrom([]byte{1, 1, 3, 0xff}).Draw(t, "abort_flags")
			if rapid.IntRange(0, 2).Draw(t, "abort_ambiguous") == 0 {
				// an abort whose octets can also be read as a START (a login carrying the right password)
				if amb, ok := ambiguousAbort(pw, rapid.ByteRange(0, 15).Draw(t, "amb_priv"), rapid.ByteRange(0, 9).Draw(t, "amb_service"), rapid.SampledFrom([]byte{251, 253, 255}).Draw(t, "amb_flags")); ok {
					sc.Pkts[k] = amb
					sc.Flavour = "ascii-abort-also-a-start"
				}
			}
			if rapid.Bool().Draw(t, "abort_ends") {
				sc.Pkts = sc.Pkts[:k+1]
			}
		}
	case "ascii-user-in-continue":
		pw := pickPassword(t, w, scope, user, rapid.IntRange(0, 3).Draw(t, "right") != 0)
		sc.Pkts = []authPkt{{Kind: "start", Start: genStart(t, 1, 1, "", "")}, cont(user, 0), cont(pw, 0)}
	case "pap", "pap-wrong":
		pw := pickPassword(t, w, scope, user, sc.Flavour == "pap")
		sc.Pkts = []authPkt{{Kind: "start", Minor: 1, Start: genStart(t, 1, 2, user, pw)}}
	case "odd-start":
		// any action/type/service/minor combination, carrying a (right) password in data
		pw := pickPassword(t, w, scope, user, true)
		s := genStart(t, rapid.SampledFrom(append([]byte{1, 1}, authenActions...)).Draw(t, "action"), rapid.SampledFrom(authenTypes).Draw(t, "atype"), user, pw)
		minor := rapid.SampledFrom([]byte{0, 1}).Draw(t, "minor")
		if rapid.Bool().Draw(t, "no_data") {
			s.Data = nil // shaped like the START of an ASCII login, whatever its type says
		}
		if rapid.Bool().Draw(t, "wrong_version_login") {
			// a login that is right in everything but the protocol version
			s.Action = 1
			s.AType = rapid.SampledFrom([]byte{1, 2}).Draw(t, "login_type")
			minor = 2 - s.AType // PAP at minor 0, ASCII at minor 1
		}
		sc.Pkts = []authPkt{{Kind: "start", Minor: minor, Start: s}}
		if rapid.IntRange(0, 3).Draw(t, "follow_up") != 0 {
			// carry on as a client would if the server prompted: user name (if not given yet), then the right password
			if user == "" {
				u2 := pickUser(t, w, scope)
				pw = pickPassword(t, w, scope, u2, true)
				sc.Pkts = append(sc.Pkts, cont(u2, 0))
			}
			sc.Pkts = append(sc.Pkts, cont(pw, 0))
		}
	case "misplaced":
		pw := pickPassword(t, w, scope, user, true)
		switch rapid.IntRange(0, 3).Draw(t, "misplaced_kind") {
		case 0: // CONTINUE to a fresh session
			sc.Pkts = []authPkt{cont(pw, 0), cont(pw, 0)}
		case 1: // START in the middle of an exchange
			sc.Pkts = []authPkt{{Kind: "start", Start: genStart(t, 1, 1, user, "")}, {Kind: "start", Minor: 1, Start: genStart(t, 1, 2, user, pw)}, cont(pw, 0)}
		case 2: // CONTINUE with the wrong minor version
			sc.Pkts = []authPkt{{Kind: "start", Start: genStart(t, 1, 1, user, "")}, {Kind: "continue", Minor: 1, Cont: &model.AuthenContinue{UserMsg: model.B(pw)}}}
		default: // password CONTINUE followed by more
			sc.Pkts = []authPkt{{Kind: "start", Start: genStart(t, 1, 1, user, "")}, cont(pw, 0), cont(pw, 0), cont(user, 0)}
		}
	default: // raw: a body that is length-consistent (so no key-mismatch close) but is no authentication packet
		n := rapid.IntRange(0, 30).Draw(t, "rawlen")
		sc.Pkts = []authPkt{{Kind: "raw", Raw: consistentBody(1, n, rapid.SliceOfN(rapid.Byte(), 1, 3).Draw(t, "rawtile"))}}
	}
	return sc
}

// authEvent is one request/reply pair of a history.
type authEvent struct {
	Script  int    `json:"script"`
	Pkt     int    `json:"pkt"`
	Seq     int    `json:"seq"`
	Replies int    `json:"replies"`
	Status  byte   `json:"status"`
	Flags   byte   `json:"flags"`
	Msg     string `json:"msg"`
	Data    string `json:"data"`
	RawHdr  string `json:"raw_hdr"`
	// FirstStatus: when two packets went out in one write, the status of the answer to the first
	FirstStatus byte `json:"first_status,omitempty"`
	Closed      bool `json:"closed"`
}

// authRunner sends scripts' packets in a given order on one connection with correct sequence numbers.
type authRunner struct {
	d       *connDriver
	key     []byte
	scripts []authScript
	next    []int // next packet index per script
	seq     []int // next sequence number per script
	dead    bool
}

func newAuthRunner(d *connDriver, key []byte, scripts []authScript) *authRunner {
	r := &authRunner{d: d, key: key, scripts: scripts, next: make([]int, len(scripts)), seq: make([]int, len(scripts))}
	for i := range r.seq {
		r.seq[i] = 1
	}
	return r
}

// step sends the next packet of script i; ok=false when the script is exhausted or the connection is gone.
func (r *authRunner) step(i int) (ev authEvent, ok bool, err error) {
	if r.dead || r.next[i] >= len(r.scripts[i].Pkts) || r.seq[i] > 255 {
		return ev, false, nil
	}
	if a := r.scripts[i].After; a > 0 && r.next[i] == 0 {
		r.seq[i] = r.seq[a-1] // carry on with the next odd number of the finished session
		if r.seq[i] > 255 {
			return ev, false, nil
		}
	}
	p := r.scripts[i].Pkts[r.next[i]]
	if p.PauseMs > 0 {
		time.Sleep(time.Duration(p.PauseMs) * time.Millisecond)
	}
	h := model.Header{Version: 0xc0 | p.Minor, Type: model.TypeAuthen, Seq: byte(r.seq[i]), Flags: r.scripts[i].HFlags, Session: r.scripts[i].Session}
	wire := model.Frame(r.key, h, p.body())
	two := p.WithNext && r.next[i]+1 < len(r.scripts[i].Pkts) && r.seq[i]+2 <= 255
	if two {
		q := r.scripts[i].Pkts[r.next[i]+1]
		h2 := h
		h2.Version, h2.Seq = 0xc0|q.Minor, byte(r.seq[i]+2)
		wire = append(append([]byte{}, wire...), model.Frame(r.key, h2, q.body())...)
	}
	pkts, rest, closed, err := r.d.send(wire)
	if err != nil {
		return ev, false, err
	}
	want := 1
	if two {
		want = 2
	}
	for tries := 0; len(pkts) < want && !closed && len(rest) == 0 && r.seq[i] < 255 && tries < 2; tries++ {
		// nothing (or not everything) was written before the server went back to reading: give a reply
		// that is sent from another goroutine a moment to arrive, so that the exchange can go on
		more, mrest, mclosed := r.d.late(150 * time.Millisecond)
		pkts, rest, closed = append(pkts, more...), mrest, mclosed
		if len(more) == 0 {
			break
		}
	}
	ev = authEvent{Script: i, Pkt: r.next[i], Seq: r.seq[i], Replies: len(pkts), Closed: closed}
	if len(rest) != 0 {
		ev.Replies = -1
	}
	if two {
		// the event describes the answer to the second packet; the answer to the first is kept aside
		if len(pkts) >= 1 {
			if rep, okd, _ := model.DecodeAuthenReply(pkts[0].Clear(r.key)); okd {
				ev.FirstStatus = rep.Status
			}
			pkts = pkts[1:]
		}
		ev.Replies = len(pkts)
		r.next[i]++
		r.seq[i] += 2
		ev.Pkt, ev.Seq = r.next[i], r.seq[i]
	}
	if len(pkts) >= 1 {
		rp := pkts[0]
		ev.RawHdr = fmt.Sprintf("%x", model.EncodeHeader(rp.H))
		if rep, okd, _ := model.DecodeAuthenReply(rp.Clear(r.key)); okd {
			ev.Status, ev.Flags, ev.Msg, ev.Data = rep.Status, rep.Flags, string(rep.ServerMsg), string(rep.Data)
		}
	}
	r.next[i]++
	r.seq[i] += 2
	if closed {
		r.dead = true
	}
	return ev, true, nil
}

// genCleanLogin draws a login that is destined to PASS (a user of the scope with a verifying password), if
// the world has one; ok=false otherwise.
func genCleanLogin(t *rapid.T, w cfggen.World, scope string, session uint32) (authScript, bool) {
	var good []string
	for name := range w.Cfg.ScopeUsers(scope) {
		if pw, ok := w.CorrectPassword(scope, name); ok && pw != "" && name != "" {
			good = append(good, name)
		}
	}
	if len(good) == 0 {
		return authScript{}, false
	}
	sortStrings(good)
	user := rapid.SampledFrom(good).Draw(t, "good_user")
	pw, _ := w.CorrectPassword(scope, user)
	sc := authScript{Session: session}
	switch rapid.IntRange(0, 2).Draw(t, "clean_kind") {
	case 0:
		sc.Flavour = "pap"
		sc.Pkts = []authPkt{{Kind: "start", Minor: 1, Start: genStart(t, 1, 2, user, pw)}}
	case 1:
		sc.Flavour = "ascii"
		sc.Pkts = []authPkt{{Kind: "start", Start: genStart(t, 1, 1, user, "")}, cont(pw, 0)}
	default:
		sc.Flavour = "ascii-user-in-continue"
		sc.Pkts = []authPkt{{Kind: "start", Start: genStart(t, 1, 1, "", "")}, cont(user, 0), cont(pw, 0)}
	}
	return sc, true
}
