#!/usr/bin/env python3
# regenerates MANIFEST.json from checks_table.py (single source of truth for what is claimed)
import json, subprocess
from checks_table import CHECKS
props = [json.loads(l) for l in open('/verif/properties.jsonl')]
def hooks_commits():
    try:
        out = subprocess.run(['git','-C','/repo','log','--format=%H %s'],capture_output=True,text=True).stdout
        return [l.split()[0] for l in out.splitlines() if ' hook:' in l or l.split(' ',1)[1].startswith('hook:')]
    except Exception:
        return []
m = {
 "version": 1,
 "setup_cmd": "cd /verif && ./vcheck setup",
 "hooks": {
  "guard": "verif",
  "enable": "go build tag: the harness is compiled with `go test -tags verif` and a `replace github.com/facebookincubator/tacquito => /repo` directive, so every check rebuilds /repo's working tree with the hook file included",
  "baseline_off_cmd": "cd /repo && GOFLAGS=-mod=mod GOPROXY=off GOSUMDB=off go test -json -vet=off -count=1 -timeout 25m ./...",
  "source_commits": hooks_commits(),
  "add_only": True,
 },
 "engines": [
  {"name": "rapid-harness", "path": "/verif/harness", "serves_properties": sorted(CHECKS),
   "kind_free_text": "pgregory.net/rapid v1.3.0 property and state-machine tests + native go fuzz targets + Go race detector, driven by /verif/vcheck; oracles are an independent RFC 8907 model, reference models of the session table / admission / policy semantics, and metamorphic relations"},
 ],
 "checks": [],
 "notes": "All checks are generated-input search against explicit oracles (property-based testing / fuzzing). See DESIGN.md. known_findings.json lists repaired defects (fixed:) and any open findings.",
 "not_applicable": [],
}
ORACLE_KIND = {
    "C01": "independent RFC 8907 layout model (reference model, both directions)",
    "C02": "round-trip and the harness' own wire-width table",
    "C03": "independent MD5-pad model on raw wire bytes",
    "C04": "totality / bounds / validity predicates over decoded values",
    "C05": "scripted-transport segmentation against the packets written (round-trip through the stream)",
    "C06": "independent header model of the reply to each request",
    "C07": "invariant over the stamped event log of a scripted connection (one reply per accepted request)",
    "C08": "reference model of per-session sequence state (model-based, stateful)",
    "C09": "metamorphic relation: each session alone on a fresh server vs interleaved",
    "C10": "independent credential evaluator (soundness for all histories, completeness for clean logins)",
    "C11": "independent policy evaluator (reference model of first-match / whole-string / default-deny)",
    "C12": "round-trip of the sink record against the bytes sent, with event-log ordering",
    "C13": "independent admission model over generated configurations and addresses",
    "C14": "crash/recover oracle plus control logins before and after hostile traffic",
    "C16": "differential: reloaded loader vs freshly constructed loader",
    "C17": "harness-owned schedule (scripted listener/connections/deadlines) with an event-log invariant",
    "C18": "information-flow search for unique tokens in every logger call and in the reference logger's output",
    "C19": "independent length-consistency classifier of the bytes the server sees",
    "C20": "invariant: gauges equal their rest values after generated connection histories",
}


def technique(pid, c):
    if "technique" in c:
        return c["technique"]
    t = "property-based testing (rapid); oracle: " + ORACLE_KIND.get(pid, "independent oracle")
    if c.get("fuzz"):
        t += "; thorough tier adds native coverage-guided fuzzing (go test -fuzz: %s) with the same oracle" % ", ".join(f["name"] for f in c["fuzz"])
    return t


for p in props:
    pid = p['id']
    if pid in CHECKS:
        c = CHECKS[pid]
        m["checks"].append({
         "property_id": pid,
         "quick_cmd": "./vcheck %s quick" % pid,
         "thorough_cmd": "./vcheck %s thorough" % pid,
         "evidence_file": "/verif/evidence/%s.json" % pid,
         "replay_cmd_template": "./vcheck %s quick --replay {path}" % pid,
         "engine": "rapid-harness",
         "level_claimed": {"category": "exploration", "text": c.get("level_text", c["rule"]), "design_ref": "DESIGN.md §3 " + pid},
         "level_note": c.get("level_note", "; ".join(c.get("assumptions", []))),
         "technique": technique(pid, c),
        })
    else:
        m["not_applicable"].append({"property_id": pid, "reason": "check not built yet (in progress; see DESIGN.md §3 %s for the planned generated-input check)" % pid})
json.dump(m, open('/verif/MANIFEST.json','w'), indent=1)
print("claimed", len(m["checks"]), "not_applicable", len(m["not_applicable"]))
