#!/usr/bin/env python3
# regenerates MANIFEST.json from checks_table.py (single source of truth for what is claimed)
import json, subprocess
from checks_table import CHECKS
props = [json.loads(l) for l in open('/verif/properties.jsonl')]
def hooks_commits():
    try:
        out = subprocess.run(['git','-C','/repo','log','--format=%H %s'],capture_output=True,text=True).stdout
        return [l.split()[0] for l in out.splitlines() if ' hook:' in l or l.split(' ',1)[1].startswith('hook:')]
    except Exception:
        return []
m = {
 "version": 1,
 "setup_cmd": "cd /verif && ./vcheck setup",
 "hooks": {
  "guard": "verif",
  "enable": "go build tag: the harness is compiled with `go test -tags verif` and a `replace github.com/facebookincubator/tacquito => /repo` directive, so every check rebuilds /repo's working tree with the hook file included",
  "baseline_off_cmd": "cd /repo && GOFLAGS=-mod=mod GOPROXY=off GOSUMDB=off go test -json -vet=off -count=1 -timeout 25m ./...",
  "source_commits": hooks_commits(),
  "add_only": True,
 },
 "engines": [
  {"name": "rapid-harness", "path": "/verif/harness", "serves_properties": sorted(CHECKS),
   "kind_free_text": "pgregory.net/rapid v1.3.0 property and state-machine tests + native go fuzz targets + Go race detector, driven by /verif/vcheck; oracles are an independent RFC 8907 model, reference models of the session table / admission / policy semantics, and metamorphic relations"},
 ],
 "checks": [],
 "notes": "All checks are generated-input search against explicit oracles (property-based testing / fuzzing). See DESIGN.md. known_findings.json lists repaired defects (fixed:) and any open findings.",
 "not_applicable": [],
}
for p in props:
    pid = p['id']
    if pid in CHECKS:
        c = CHECKS[pid]
        m["checks"].append({
         "property_id": pid,
         "quick_cmd": "./vcheck %s quick" % pid,
         "thorough_cmd": "./vcheck %s thorough" % pid,
         "evidence_file": "/verif/evidence/%s.json" % pid,
         "replay_cmd_template": "./vcheck %s quick --replay {path}" % pid,
         "engine": "rapid-harness",
         "level_claimed": {"category": "exploration", "text": c.get("level_text", c["rule"]), "design_ref": "DESIGN.md §3 " + pid},
         "level_note": c.get("level_note", "; ".join(c.get("assumptions", []))),
         "technique": c.get("technique", "property-based testing (rapid) against an independent oracle"),
        })
    else:
        m["not_applicable"].append({"property_id": pid, "reason": "check not built yet (in progress; see DESIGN.md §3 %s for the planned generated-input check)" % pid})
json.dump(m, open('/verif/MANIFEST.json','w'), indent=1)
print("claimed", len(m["checks"]), "not_applicable", len(m["not_applicable"]))
