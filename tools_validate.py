#!/usr/bin/env python3
# validates MANIFEST.json and every evidence file against the given schemas (uses the tooling venv)
import json, sys, glob
import jsonschema
ok = True
m = json.load(open('/verif/MANIFEST.json'))
jsonschema.validate(m, json.load(open('/root/.vp/MANIFEST.schema.json')))
es = json.load(open('/root/.vp/EVIDENCE.schema.json'))
for c in m['checks']:
    try:
        jsonschema.validate(json.load(open(c['evidence_file'])), es)
    except Exception as e:
        ok = False
        print('EVIDENCE INVALID', c['property_id'], str(e)[:300])
claimed = {c['property_id'] for c in m['checks']}
na = {n['property_id'] for n in m.get('not_applicable', [])}
allp = {json.loads(l)['id'] for l in open('/verif/properties.jsonl')}
print('claimed', len(claimed), 'n/a', len(na), 'unaccounted', sorted(allp - claimed - na))
sys.exit(0 if ok else 1)
