#!/bin/bash
# runs every registered check of a tier (default quick), N at a time, and validates MANIFEST + evidence
tier="${1:-quick}"; par="${2:-4}"
cd "$(dirname "$(readlink -f "$0")")" || exit 2
ids=$(python3 -c "from checks_table import CHECKS; print(' '.join(sorted(CHECKS)))")
mkdir -p .build/runall
printf '%s\n' $ids | xargs -P "$par" -I{} sh -c "./vcheck {} $tier > .build/runall/{}.$tier.log 2>&1; echo \"{} exit=\$?  \$(tail -1 .build/runall/{}.$tier.log | cut -c1-200)\""
[ -z "${VERIF_EVIDENCE_DIR:-}" ] && python3-vt tools_validate.py
