#!/usr/bin/env python3
# usage: tools_seed_archive.py <Cxx> <seeddir> <name> <verified-text> <caught-by-text> [<note>]
import json, os, shutil, sys
prop, src, name, verified, caught = sys.argv[1:6]
note = sys.argv[6] if len(sys.argv) > 6 else ""
dst = f"/verif/seeded/{name}"
os.makedirs(dst, exist_ok=True)
for f in os.listdir(src):
    shutil.copy(os.path.join(src, f), os.path.join(dst, f if not f.endswith('.go') else f + '.txt'))
agent = {}
try:
    agent = json.load(open(os.path.join(src, 'meta.json')))
except Exception as e:
    agent = {"unparsable_agent_meta": str(e)}
meta = {"property": prop, "breaks": agent.get("summary", ""), "needs_to_manifest": agent.get("needs", ""),
        "files_changed": agent.get("files_changed", []), "agent_verified": agent.get("verified", ""),
        "my_confirmation": verified, "checks_run": caught, "note": note}
json.dump(meta, open(os.path.join(dst, 'meta.json'), 'w'), indent=1)
print("archived", dst)
